//@ unit i_int : BigInt Integer helpers: gcd, lcm, gcd_lcm, is_multiple_of, next/prev_multiple_of, inc, dec (src/bigint.rs) and BigUint inc/dec (src/biguint.rs)
#![feature(allocator_api)]
use vstd::prelude::*;
use vstd::std_specs::iter::IteratorSpec;
use vstd::std_specs::ops::*;
use core::ops::{Add, AddAssign, Sub, SubAssign, Neg, Mul, Div};
verus! {
//@ include prelude/core.rs
//@ include prelude/std_specs.rs
//@ include prelude/panic.rs
//@ include prelude/val32.rs
//@ include prelude/gcdspec.rs
//@ extract src/bigint.rs :: enum Sign attrs=1
#[derive(/*+*/Structural, /*-*/PartialEq, PartialOrd, Eq, Ord, Copy, Clone, Debug, Hash)]
pub enum Sign {
    Minus,
    NoSign,
    Plus,
}
//@ end
pub mod u {
use super::*;
use Sign::*;

//@ extract src/biguint.rs :: struct BigUint
pub struct BigUint {
    data: Vec<BigDigit>,
}
//@ end
//@ include prelude/biguint_view.rs
impl BigUint {
//@ extract src/biguint.rs :: impl BigUint :: const ZERO rules=R9,R13 label=BigUint_ZERO
    exec const ZERO: Self /*+*/ensures Self::ZERO.data@.len() == 0 /*-*/{ BigUint { data: Vec::new() } }
//@ end
//@ stub u_core/clone
//@ stub u_core/is_zero
//@ stub u_gcd/gcd
//@ stub u_int/lcm
//@ stub u_int/gcd_lcm
//@ stub u_int/is_multiple_of
//@ stub u_modpow/is_even
}
impl DivSpecImpl<&BigUint> for &BigUint {
    open spec fn obeys_div_spec() -> bool { false }
    open spec fn div_req(self, rhs: &BigUint) -> bool { self.wf() && rhs.wf() && (!mp() ==> rhs.v() != 0) }
    open spec fn div_spec(self, rhs: &BigUint) -> BigUint { arbitrary() }
}
impl Div<&BigUint> for &BigUint {
    type Output = BigUint;
//@ stub u_divapi/div_ref_ref
}
impl MulSpecImpl<&BigUint> for BigUint {
    open spec fn obeys_mul_spec() -> bool { false }
    open spec fn mul_req(self, rhs: &BigUint) -> bool { self.wf() && rhs.wf() }
    open spec fn mul_spec(self, rhs: &BigUint) -> BigUint { arbitrary() }
}
impl Mul<&BigUint> for BigUint {
    type Output = BigUint;
//@ stub u_mul/mul_vr
}
impl AddAssignSpecImpl<u32> for BigUint {
    open spec fn obeys_add_assign_spec() -> bool { false }
    open spec fn add_assign_req(&self, rhs: u32) -> bool { self.wf() }
    open spec fn add_assign_spec(&self, rhs: u32) -> &BigUint { arbitrary() }
}
impl AddAssign<u32> for BigUint {
//@ stub u_scalar/add_assign_u32
}
impl SubAssignSpecImpl<u32> for BigUint {
    open spec fn obeys_sub_assign_spec() -> bool { false }
    open spec fn sub_assign_req(&self, rhs: u32) -> bool { self.wf() && (!mp() ==> self.v() >= rhs as nat) }
    open spec fn sub_assign_spec(&self, rhs: u32) -> &BigUint { arbitrary() }
}
impl SubAssign<u32> for BigUint {
//@ stub u_scalar/sub_assign_u32
}
impl BigUint {
    // contract-only re-homing of `impl Integer for BigUint` :: inc / dec
//@ extract src/biguint.rs :: impl Integer for BigUint :: fn dec props=C13,C14 label=biguint_dec
    fn dec(&mut self)
//+{
        requires old(self).wf(), !mp() ==> old(self).v() >= 1
        ensures mp() ==> old(self).v() >= 1, final(self).wf(), final(self).v() + 1 == old(self).v()
//+}
    {
        *self -= 1u32;
    }
//@ end
//@ extract src/biguint.rs :: impl Integer for BigUint :: fn inc props=C13 label=biguint_inc
    fn inc(&mut self)
//+{
        requires old(self).wf()
        ensures final(self).wf(), final(self).v() == old(self).v() + 1
//+}
    {
        *self += 1u32;
    }
//@ end
}

//@ extract src/bigint.rs :: struct BigInt
pub struct BigInt {
    sign: Sign,
    data: BigUint,
}
//@ end
//@ include prelude/bigint_view.rs
//@ include prelude/bigint_core_stubs.rs
// local model of num_integer::ExtendedGcd<A> (external crate): the same three public fields
pub struct ExtendedGcd<A> {
    pub gcd: A,
    pub x: A,
    pub y: A,
}
/// Bezout: a*x + b*y == g == gcd(|a|, |b|) >= 0
pub open spec fn egcd_ok(a: int, b: int, e: ExtendedGcd<BigInt>) -> bool {
    &&& e.gcd.wfi() && e.x.wfi() && e.y.wfi()
    &&& e.gcd.iv() >= 0
    &&& is_gcd(uabs(a), uabs(b), e.gcd.iv() as nat)
    &&& a * e.x.iv() + b * e.y.iv() == e.gcd.iv()
}
//@ include prelude/divspec.rs
impl vstd::std_specs::convert::FromSpecImpl<BigUint> for BigInt {
    open spec fn obeys_from_spec() -> bool { false }
    open spec fn from_spec(v: BigUint) -> BigInt { arbitrary() }
}
impl From<BigUint> for BigInt {
//@ stub i_div/from_biguint_trait
}
impl AddSpecImpl<BigInt> for &BigInt {
    open spec fn obeys_add_spec() -> bool { false }
    open spec fn add_req(self, rhs: BigInt) -> bool { self.wfi() && rhs.wfi() }
    open spec fn add_spec(self, rhs: BigInt) -> BigInt { arbitrary() }
}
impl Add<BigInt> for &BigInt {
    type Output = BigInt;
//@ stub i_addsub/add_rv
}
impl SubSpecImpl<BigInt> for &BigInt {
    open spec fn obeys_sub_spec() -> bool { false }
    open spec fn sub_req(self, rhs: BigInt) -> bool { self.wfi() && rhs.wfi() }
    open spec fn sub_spec(self, rhs: BigInt) -> BigInt { arbitrary() }
}
impl Sub<BigInt> for &BigInt {
    type Output = BigInt;
//@ stub i_addsub/sub_rv
}
impl AddAssignSpecImpl<u32> for BigInt {
    open spec fn obeys_add_assign_spec() -> bool { false }
    open spec fn add_assign_req(&self, rhs: u32) -> bool { self.wfi() }
    open spec fn add_assign_spec(&self, rhs: u32) -> &BigInt { arbitrary() }
}
impl AddAssign<u32> for BigInt {
//@ stub i_scalar/add_assign_u32
}
impl SubAssignSpecImpl<u32> for BigInt {
    open spec fn obeys_sub_assign_spec() -> bool { false }
    open spec fn sub_assign_req(&self, rhs: u32) -> bool { self.wfi() }
    open spec fn sub_assign_spec(&self, rhs: u32) -> &BigInt { arbitrary() }
}
impl SubAssign<u32> for BigInt {
//@ stub i_scalar/sub_assign_u32
}

pub open spec fn uabs(x: int) -> nat { if x < 0 { (-x) as nat } else { x as nat } }

/// floor remainder m of a by b: a - m is the multiple of b at or "below" a in the direction of -sign(b); a + (b - m) the next one
pub proof fn lemma_floor_multiples(a: int, b: int, q: int, m: int)
    requires is_floor(a, b, q, m)
    ensures
        a - m == q * b,
        m != 0 ==> a + (b - m) == (q + 1) * b,
        b > 0 ==> 0 <= m < b,
        b < 0 ==> b < m <= 0,
{
    assert((q + 1) * b == q * b + b) by (nonlinear_arith);
}

pub proof fn lemma_floor_multiples_all(a: int, b: int)
    ensures forall|q: int, m: int| #[trigger] is_floor(a, b, q, m) ==> a - m == q * b && (b > 0 ==> 0 <= m < b) && (b < 0 ==> b < m <= 0)
{
    assert forall|q: int, m: int| #[trigger] is_floor(a, b, q, m) implies a - m == q * b && (b > 0 ==> 0 <= m < b) && (b < 0 ==> b < m <= 0) by {
        lemma_floor_multiples(a, b, q, m);
    }
}

impl BigInt {
//@ stub i_div/mod_floor
    //@ assume num_integer::<BigInt as Integer>::extended_gcd : default method of the external trait (Euclid's algorithm over the BigInt operators); contract: Bezout identity with a non-negative gcd
    #[verifier::external_body]
    fn extended_gcd(&self, other: &BigInt) -> (r: ExtendedGcd<BigInt>)
        requires self.wfi(), other.wfi()
        ensures egcd_ok(self.iv(), other.iv(), r)
    { unimplemented!() }
    // contract-only re-homing of `impl Integer for BigInt` (num_integer::Integer is an external trait)
//@ extract src/bigint.rs :: impl Integer for BigInt :: fn gcd props=C13 label=bigint_gcd
    fn gcd(&self, other: &BigInt) -> /*+*/(r: /*-*/BigInt/*+*/)/*-*/
//+{
        requires self.wfi(), other.wfi()
        ensures r.wfi(), r.iv() >= 0, is_gcd(uabs(self.iv()), uabs(other.iv()), r.iv() as nat)
//+}
    {
//+{
        proof { lemma_sgn_mul(self.sign, self.data.v()); lemma_sgn_mul(other.sign, other.data.v()); }
//+}
        BigInt::from(self.data.gcd(&other.data))
    }
//@ end

//@ extract src/bigint.rs :: impl Integer for BigInt :: fn lcm props=C13 label=bigint_lcm
    fn lcm(&self, other: &BigInt) -> /*+*/(r: /*-*/BigInt/*+*/)/*-*/
//+{
        requires self.wfi(), other.wfi()
        ensures r.wfi(), r.iv() >= 0, is_lcm_via_gcd(uabs(self.iv()), uabs(other.iv()), r.iv() as nat)
//+}
    {
//+{
        proof { lemma_sgn_mul(self.sign, self.data.v()); lemma_sgn_mul(other.sign, other.data.v()); }
//+}
        BigInt::from(self.data.lcm(&other.data))
    }
//@ end

//@ extract src/bigint.rs :: impl Integer for BigInt :: fn gcd_lcm props=C13 label=bigint_gcd_lcm
    fn gcd_lcm(&self, other: &BigInt) -> /*+*/(r: /*-*/(BigInt, BigInt)/*+*/)/*-*/
//+{
        requires self.wfi(), other.wfi()
        ensures r.0.wfi(), r.1.wfi(), r.0.iv() >= 0, r.1.iv() >= 0,
            is_gcd(uabs(self.iv()), uabs(other.iv()), r.0.iv() as nat), is_lcm_via_gcd(uabs(self.iv()), uabs(other.iv()), r.1.iv() as nat)
//+}
    {
//+{
        proof { lemma_sgn_mul(self.sign, self.data.v()); lemma_sgn_mul(other.sign, other.data.v()); }
//+}
        let (gcd, lcm) = self.data.gcd_lcm(&other.data);
        (BigInt::from(gcd), BigInt::from(lcm))
    }
//@ end

//@ extract src/bigint.rs :: impl Integer for BigInt :: fn is_multiple_of props=C13 label=bigint_is_multiple_of
    fn is_multiple_of(&self, other: &BigInt) -> /*+*/(r: /*-*/bool/*+*/)/*-*/
//+{
        requires self.wfi(), other.wfi()
        ensures r == divides(uabs(other.iv()), uabs(self.iv()))
//+}
    {
//+{
        proof { lemma_sgn_mul(self.sign, self.data.v()); lemma_sgn_mul(other.sign, other.data.v()); }
//+}
        self.data.is_multiple_of(&other.data)
    }
//@ end

//@ extract src/bigint.rs :: impl Integer for BigInt :: fn extended_gcd_lcm rules=R0,R3n6 tysub=num_integer::ExtendedGcd<BigInt>=>ExtendedGcd<BigInt> props=C13,C14 label=bigint_extended_gcd_lcm
    fn extended_gcd_lcm(&self, other: &BigInt) -> /*+*/(r: /*-*/(ExtendedGcd<BigInt>, BigInt)/*+*/)/*-*/
//+{
        requires self.wfi(), other.wfi()
        ensures egcd_ok(self.iv(), other.iv(), r.0), r.1.wfi(), r.1.iv() >= 0,
            is_lcm_via_gcd(uabs(self.iv()), uabs(other.iv()), r.1.iv() as nat)
//+}
    {
//+{
        proof {
            lemma_sgn_mul(self.sign, self.data.v()); lemma_sgn_mul(other.sign, other.data.v());
            lemma_gcd_nonzero(self.data.v(), other.data.v()); lemma_lcm_all(self.data.v(), other.data.v());
            lemma_divides_zero(self.data.v()); lemma_divides_zero(other.data.v());
        }
//+}
        let egcd = self.extended_gcd(other);
//+{
        proof { lemma_sgn_mul(egcd.gcd.sign, egcd.gcd.data.v()); }
//+}
        let lcm = if egcd.gcd.is_zero() {
            Self::ZERO
        } else {
            BigInt::from(Mul::mul(Div::div(&self.data, &egcd.gcd.data), &other.data))
        };
        (egcd, lcm)
    }
//@ end

//@ extract src/bigint.rs :: impl Integer for BigInt :: fn divides props=C13 label=bigint_divides
    fn divides(&self, other: &BigInt) -> /*+*/(r: /*-*/bool/*+*/)/*-*/
//+{
        requires self.wfi(), other.wfi()
        ensures r == divides(uabs(other.iv()), uabs(self.iv()))
//+}
    {
        self.is_multiple_of(other)
    }
//@ end

//@ extract src/bigint.rs :: impl Integer for BigInt :: fn is_even props=C13 label=bigint_is_even
    fn is_even(&self) -> /*+*/(r: /*-*/bool/*+*/)/*-*/
//+{
        requires self.wfi()
        ensures r == (self.iv() % 2 == 0)
//+}
    {
//+{
        proof {
            lemma_sgn_mul(self.sign, self.data.v());
            let m = self.data.v() as int;
            assert(((-m) % 2 == 0) == (m % 2 == 0)) by {
                vstd::arithmetic::div_mod::lemma_fundamental_div_mod(m, 2);
                vstd::arithmetic::div_mod::lemma_fundamental_div_mod(-m, 2);
            }
        }
//+}
        self.data.is_even()
    }
//@ end

//@ extract src/bigint.rs :: impl Integer for BigInt :: fn next_multiple_of rules=R0,R3n1 props=C13,C14 label=bigint_next_multiple_of
    fn next_multiple_of(&self, other: &Self) -> /*+*/(r: /*-*/Self/*+*/)/*-*/
//+{
        requires self.wfi(), other.wfi(), !mp() ==> other.iv() != 0
        ensures mp() ==> other.iv() != 0, r.wfi(),
            exists|k: int| r.iv() == #[trigger] (k * other.iv()),
            other.iv() > 0 ==> self.iv() <= r.iv() < self.iv() + other.iv(),
            other.iv() < 0 ==> self.iv() + other.iv() < r.iv() <= self.iv(),
//+}
    {
        let m = self.mod_floor(other);
//+{
        let ghost q = choose|q: int| is_floor(self.iv(), other.iv(), q, m.iv());
        proof {
            lemma_floor_multiples(self.iv(), other.iv(), q, m.iv());
            if m.iv() == 0 { assert(self.iv() == #[trigger] (q * other.iv())); }
            else { assert(self.iv() + (other.iv() - m.iv()) == #[trigger] ((q + 1) * other.iv())); }
        }
//+}
        if m.is_zero() {
            self.clone()
        } else {
            Add::add(self, Sub::sub(other, m))
        }
    }
//@ end

//@ extract src/bigint.rs :: impl Integer for BigInt :: fn prev_multiple_of rules=R0,R3n2 props=C13,C14 label=bigint_prev_multiple_of
    fn prev_multiple_of(&self, other: &Self) -> /*+*/(r: /*-*/Self/*+*/)/*-*/
//+{
        requires self.wfi(), other.wfi(), !mp() ==> other.iv() != 0
        ensures mp() ==> other.iv() != 0, r.wfi(),
            exists|k: int| r.iv() == #[trigger] (k * other.iv()),
            other.iv() > 0 ==> self.iv() - other.iv() < r.iv() <= self.iv(),
            other.iv() < 0 ==> self.iv() <= r.iv() < self.iv() - other.iv(),
//+}
    {
//+{
        proof { lemma_floor_multiples_all(self.iv(), other.iv()); }
//+}
        Sub::sub(self, self.mod_floor(other))
    }
//@ end

//@ extract src/bigint.rs :: impl Integer for BigInt :: fn dec props=C13 label=bigint_dec
    fn dec(&mut self)
//+{
        requires old(self).wfi()
        ensures final(self).wfi(), final(self).iv() == old(self).iv() - 1
//+}
    {
        *self -= 1u32;
    }
//@ end

//@ extract src/bigint.rs :: impl Integer for BigInt :: fn inc props=C13 label=bigint_inc
    fn inc(&mut self)
//+{
        requires old(self).wfi()
        ensures final(self).wfi(), final(self).iv() == old(self).iv() + 1
//+}
    {
        *self += 1u32;
    }
//@ end
}

} // mod u
} // verus!
fn main() {}
