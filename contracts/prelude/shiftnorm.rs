// Normalisation shift of long division: shifting a canonical number left by the leading-zero count of its top digit
// keeps the digit count and sets the top bit; value-level consequences used by div_rem / div_rem_ref.
pub open spec fn p2(k: nat) -> nat { vstd::arithmetic::power2::pow2(k) }

/// a wf sequence whose value lies in [B^(n-1), B^n) has exactly n digits
pub proof fn lemma_len_from_value(s: Seq<u64>, n: nat)
    requires wf(s), n >= 1, val(s) >= pw((n - 1) as nat), val(s) < pw(n)
    ensures s.len() == n
{
    if s.len() > n {
        lemma_wf_lower(s);
        lemma_pw_mono(n, (s.len() - 1) as nat);
    } else if s.len() < n {
        lemma_valp_bound(s, s.len());
        lemma_pw_mono(s.len(), (n - 1) as nat);
    }
}

/// top digit from value: val(s) >= t * B^(n-1) with |s| = n forces s[n-1] >= t
pub proof fn lemma_top_from_value(s: Seq<u64>, t: nat)
    requires s.len() >= 1, val(s) >= t * pw((s.len() - 1) as nat)
    ensures s[s.len() - 1] as nat >= t
{
    let n1 = (s.len() - 1) as nat;
    lemma_valp_bound(s, n1);
    let top = s[n1 as int] as nat;
    let p = pw(n1);
    if top < t {
        assert(top * p + p <= t * p) by (nonlinear_arith) requires top + 1 <= t;
    }
}

/// bounds of val(s) from its top digit
pub proof fn lemma_value_from_top(s: Seq<u64>)
    requires s.len() >= 1
    ensures val(s) >= (s[s.len() - 1] as nat) * pw((s.len() - 1) as nat),
        val(s) < ((s[s.len() - 1] as nat) + 1) * pw((s.len() - 1) as nat)
{
    let n1 = (s.len() - 1) as nat;
    lemma_valp_bound(s, n1);
    let top = s[n1 as int] as nat;
    let p = pw(n1);
    assert((top + 1) * p == top * p + p) by (nonlinear_arith);
}

/// a non-zero digit t with lz leading zeros satisfies 2^63 <= t * 2^lz < 2^64
pub proof fn lemma_lz_scale(t: u64)
    requires t != 0
    ensures
        vstd::std_specs::bits::u64_leading_zeros(t) < 64,
        (t as nat) * p2(vstd::std_specs::bits::u64_leading_zeros(t) as nat) >= 0x8000_0000_0000_0000nat,
        (t as nat) * p2(vstd::std_specs::bits::u64_leading_zeros(t) as nat) < B(),
{
    vstd::std_specs::bits::axiom_u64_leading_zeros(t);
    let lz = vstd::std_specs::bits::u64_leading_zeros(t);
    let l = lz as u64;
    assert(l < 64);
    // the axiom: bit (63 - lz) is set and everything above is clear
    assert(((t << l) >> l) == t && (t << l) >= 0x8000_0000_0000_0000u64) by (bit_vector)
        requires l < 64, (t >> ((63 - l) as u64)) & 1u64 != 0u64, (t >> ((64 - l) as u64)) == 0u64 || l == 0;
    vstd::arithmetic::power2::lemma2_to64();
    vstd::arithmetic::power2::lemma_pow2_strictly_increases(lz as nat, 64);
    // t << l does not overflow: t * 2^l == (t << l)
    assert(t < (1u64 << ((64 - l) as u64)) || l == 0) by (bit_vector) requires l < 64, ((t << l) >> l) == t;
    lemma_shl_no_overflow(t, l);
}

/// if (t << l) >> l == t then t * 2^l == t << l (no overflow)
pub proof fn lemma_shl_no_overflow(t: u64, l: u64)
    requires l < 64, ((t << l) >> l) == t
    ensures (t as nat) * p2(l as nat) == (t << l) as nat
{
    vstd::arithmetic::power2::lemma2_to64();
    // t <= u64::MAX >> l, so t * 2^l <= u64::MAX
    assert(t <= (0xffff_ffff_ffff_ffffu64 >> l)) by (bit_vector) requires l < 64, ((t << l) >> l) == t;
    vstd::bits::lemma_u64_shr_is_div(0xffff_ffff_ffff_ffffu64, l);
    let m = (0xffff_ffff_ffff_ffffu64 >> l) as nat;
    let p = p2(l as nat);
    vstd::arithmetic::power2::lemma_pow2_pos(l as nat);
    assert(m == 0xffff_ffff_ffff_ffffnat / p);
    assert(m * p <= 0xffff_ffff_ffff_ffffnat) by (nonlinear_arith) requires m == 0xffff_ffff_ffff_ffffnat / p, p > 0;
    assert((t as nat) * p <= m * p) by (nonlinear_arith) requires (t as nat) <= m;
    vstd::bits::lemma_u64_shl_is_mul(t, l);
}

/// the shifted divisor: same digit count, top bit set
pub proof fn lemma_norm_shift(d: Seq<u64>, ds: Seq<u64>, k: nat)
    requires wf(d), d.len() >= 1, wf(ds),
        k == vstd::std_specs::bits::u64_leading_zeros(d[d.len() - 1]) as nat,
        val(ds) == val(d) * p2(k),
    ensures ds.len() == d.len(), ds[ds.len() - 1] >= 0x8000_0000_0000_0000u64
{
    let n = d.len();
    let n1 = (n - 1) as nat;
    let t = d[n1 as int];
    lemma_lz_scale(t);
    lemma_value_from_top(d);
    let p = pw(n1);
    let s = p2(k);
    let tv = t as nat;
    // val(d)*s in [tv*s*p, (tv*s + s)*p) subset [2^63 p, B p)
    assert(val(d) * s >= (tv * s) * p) by (nonlinear_arith) requires val(d) >= tv * p;
    vstd::arithmetic::power2::lemma_pow2_pos(k);
    assert(val(d) * s < ((tv + 1) * s) * p) by (nonlinear_arith) requires val(d) < (tv + 1) * p, s >= 1;
    assert((tv + 1) * s == tv * s + s) by (nonlinear_arith);
    // tv*s < B and tv*s is a multiple of s, so tv*s + s <= B
    lemma_mult_bound(tv, s);
    assert(((tv + 1) * s) * p <= B() * p) by (nonlinear_arith) requires (tv + 1) * s <= B();
    assert(pw(n) == B() * pw(n1));
    assert((tv * s) * p >= 0x8000_0000_0000_0000nat * p) by (nonlinear_arith) requires tv * s >= 0x8000_0000_0000_0000nat;
    assert(0x8000_0000_0000_0000nat * p >= p) by (nonlinear_arith);
    lemma_len_from_value(ds, n);
    lemma_top_from_value(ds, 0x8000_0000_0000_0000nat);
}

/// tv * s < B with s = 2^k, k < 64: then tv * s + s <= B  (B is a multiple of s)
pub proof fn lemma_mult_bound(tv: nat, s: nat)
    requires exists|k: nat| k < 64 && s == p2(k), tv * s < B()
    ensures (tv + 1) * s <= B()
{
    let k = choose|k: nat| k < 64 && s == p2(k);
    vstd::arithmetic::power2::lemma2_to64();
    vstd::arithmetic::power2::lemma_pow2_adds(k, (64 - k) as nat);
    let c = p2((64 - k) as nat);
    assert(B() == s * c);
    vstd::arithmetic::power2::lemma_pow2_pos(k);
    // tv * s < c * s  =>  tv < c  => tv + 1 <= c
    assert(tv < c) by (nonlinear_arith) requires tv * s < s * c, s > 0;
    assert((tv + 1) * s <= c * s) by (nonlinear_arith) requires tv + 1 <= c;
    assert(c * s == s * c) by (nonlinear_arith);
}

/// exact un-shift of the remainder: (u*s) = q*(d*s) + r  ==>  r = (u - q*d)*s, r / s = u - q*d < d
pub proof fn lemma_unshift(u: nat, d: nat, q: nat, r: nat, s: nat)
    requires s >= 1, u * s == q * (d * s) + r, r < d * s
    ensures u == q * d + r / s, r / s < d, r % s == 0
{
    assert(q * (d * s) == (q * d) * s) by (nonlinear_arith);
    assert(u >= q * d) by (nonlinear_arith) requires u * s == (q * d) * s + r, s >= 1;
    let w = (u - q * d) as nat;
    assert(w * s == u * s - (q * d) * s) by (nonlinear_arith) requires w == u - q * d, u >= q * d;
    assert(r == w * s);
    vstd::arithmetic::div_mod::lemma_div_multiples_vanish(w as int, s as int);
    vstd::arithmetic::div_mod::lemma_mod_multiples_basic(w as int, s as int);
    assert(w < d) by (nonlinear_arith) requires w * s < d * s, s >= 1;
}

/// quantified forms for unnamed temporaries (`u << shift`, `(d << shift).data`)
pub proof fn lemma_norm_shift_all(d: Seq<u64>, k: nat)
    requires wf(d), d.len() >= 1, k == vstd::std_specs::bits::u64_leading_zeros(d[d.len() - 1]) as nat
    ensures forall|ds: Seq<u64>| #![trigger wf(ds)] wf(ds) && val(ds) == val(d) * p2(k) ==> ds.len() == d.len() && ds[ds.len() - 1] >= 0x8000_0000_0000_0000u64
{
    assert forall|ds: Seq<u64>| #![trigger wf(ds)] wf(ds) && val(ds) == val(d) * p2(k) implies ds.len() == d.len() && ds[ds.len() - 1] >= 0x8000_0000_0000_0000u64 by {
        lemma_norm_shift(d, ds, k);
    }
}

pub proof fn lemma_longer_all()
    ensures forall|u: Seq<u64>, d: Seq<u64>| #![trigger wf(u), wf(d)] wf(u) && wf(d) && val(u) > val(d) ==> u.len() >= d.len()
{
    assert forall|u: Seq<u64>, d: Seq<u64>| #![trigger wf(u), wf(d)] wf(u) && wf(d) && val(u) > val(d) implies u.len() >= d.len() by {
        if u.len() < d.len() { lemma_shorter_lt(u, d); }
    }
}
