use vstd::prelude::*;
verus! {
fn t3(v: &mut Vec<u64>) requires old(v).len() > 0 ensures final(v)@.len() == old(v)@.len(), final(v)@[0] == 1 { let s = &mut v.as_mut_slice()[..]; s[0] = 1; }
fn t5(v: &mut Vec<u64>, n: usize) requires n < old(v).len() ensures final(v)@.len() == old(v)@.len(), final(v)@[n as int] == 1, forall|i: int| 0 <= i < n ==> final(v)@[i] == old(v)@[i] { let s = &mut v.as_mut_slice()[n..]; s[0] = 1; }
fn callee(a: &mut [u64]) requires old(a).len() > 0 ensures final(a).len() == old(a).len(), final(a)[0] == 7 { a[0] = 7; }
fn t6(v: &mut Vec<u64>) requires old(v).len() > 0 ensures final(v)@[0] == 7 { callee(v); }
fn t7(v: &mut Vec<u64>) requires old(v).len() > 0 ensures final(v)@[0] == 7 { callee(&mut v[..]); }
} // verus!
fn main() {}
