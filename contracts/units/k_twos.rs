//@ unit k_twos : two's-complement digit routines of BigInt bitwise logic (src/bigint/bits.rs): negate_carry and the nine sign-case kernels
#![feature(allocator_api)]
use vstd::prelude::*;
use vstd::std_specs::iter::IteratorSpec;
use vstd::std_specs::ops::*;
use core::cmp::Ordering::{Equal, Greater, Less};
verus! {
//@ include prelude/core.rs
//@ include prelude/std_specs.rs
//@ include prelude/panic.rs
//@ include prelude/bitdigits.rs
//@ include prelude/bitval.rs
//@ include prelude/twos.rs
pub mod u {
use super::*;

pub mod big_digit {
    use vstd::prelude::*;
    pub type BigDigit = u64;
    pub type DoubleBigDigit = u128;
//@ extract src/lib.rs :: mod big_digit :: const BITS
    pub(crate) const BITS: u8 = BigDigit::BITS as u8;
//@ end
}

use self::big_digit::DoubleBigDigit;

//@ extract src/bigint/bits.rs :: fn negate_carry rules=R0 props=C07
fn negate_carry(a: BigDigit, acc: &mut DoubleBigDigit) -> /*+*/(lo: /*-*/BigDigit/*+*/)/*-*/
//+{
    requires *old(acc) <= 1
    ensures lo == ((((!a) as nat) + (*old(acc)) as nat) % B()) as u64, (*final(acc)) as nat == (((!a) as nat) + (*old(acc)) as nat) / B()
//+}
{
//+{
    let ghost c0 = *acc;
    let ghost na = !a;
//+}
    *acc += DoubleBigDigit::from(!a);
    let lo = *acc as BigDigit;
//+{
    proof {
        let t = *acc;
        assert(t == c0 + na as u128);
        assert(t as u64 == t % 0x1_0000_0000_0000_0000u128) by (bit_vector);
        assert(t >> 64u8 == t / 0x1_0000_0000_0000_0000u128) by (bit_vector);
    }
//+}
    *acc >>= big_digit::BITS;
    lo
}
//@ end

// + 1 & -ff = ...0 01 & ...f 01 = ...0 01 = + 1
//@ extract src/bigint/bits.rs :: fn bitand_pos_neg rules=R0,R10zs,R14 props=C07
fn bitand_pos_neg(a: &mut [BigDigit], b: &[BigDigit])
//+{
    requires val(b@) > 0
    ensures final(a)@ =~= wdig(0, false, old(a)@, true, b@, old(a)@.len())
//+}
{
//+{
    let ghost a0 = a@;
//+}
    let mut carry_b = 1;
    { let mut i__ = 0; let n__ = Ord::min(a.len(), b.len()); while i__ < n__
//+{
        invariant
            a@.len() == a0.len(), n__ <= a0.len(), n__ <= b@.len(), i__ <= n__, carry_b as nat == ncar(b@, i__ as nat), carry_b <= 1,
            forall|j: int| 0 <= j < i__ ==> a@[j] == a0[j] & ndig(b@, j as nat),
            forall|j: int| i__ <= j < a0.len() ==> a@[j] == a0[j],
        decreases n__ - i__
//+}
    { let ai = &mut a[i__]; let bi = b[i__]; i__ += 1;
//+{
        proof { lemma_ncar_step(b@, (i__ - 1) as nat, bi, carry_b as nat); }
//+}
        let twos_b = negate_carry(bi, &mut carry_b);
        *ai &= twos_b;
    } }
//+{
    proof {
        assert forall|j: int| 0 <= j < a0.len() implies a@[j] == wdig(0, false, a0, true, b@, a0.len())[j] by {
            if j >= b@.len() {
                lemma_sdig_high(true, b@, j as nat);
                lemma_bit_ids(a0[j], a0[j]);
            }
        }
    }
//+}
}
//@ end

// - 1 & -ff = ...f ff & ...f 01 = ...f 01 = - ff
//@ extract src/bigint/bits.rs :: fn bitand_neg_neg rules=R0,R10z,R14,R10s2,R29,R12e,R16u props=C07
fn bitand_neg_neg(a: &mut Vec<BigDigit>, b: &[BigDigit])
//+{
    requires val(old(a)@) > 0, val(b@) > 0
    ensures ({
        let n: nat = if old(a)@.len() >= b@.len() { old(a)@.len() } else { b@.len() };
        let w = wdig(0, true, old(a)@, true, b@, n);
        final(a)@ =~= (if ncar(w, n) == 1 { twd(w, n).push(1u64) } else { twd(w, n) })
    })
//+}
{
//+{
    let ghost a0 = a@;
    let ghost bs = b@;
    let ghost la = a0.len();
    let ghost lb = bs.len();
    let ghost n: nat = if la >= lb { la } else { lb };
    let ghost w = wdig(0, true, a0, true, bs, n);
//+}
    let mut carry_a = 1;
    let mut carry_b = 1;
    let mut carry_and = 1;
    { let mut i__ = 0; let n__ = Ord::min(a.len(), b.len()); while i__ < n__
//+{
        invariant
            a@.len() == la, n__ <= la, n__ <= lb, i__ <= n__, a0.len() == la, bs.len() == lb, bs == b@, la <= n, lb <= n,
            w == wdig(0, true, a0, true, bs, n), w.len() == n,
            carry_a as nat == ncar(a0, i__ as nat), carry_a <= 1, carry_b as nat == ncar(bs, i__ as nat), carry_b <= 1,
            carry_and as nat == ncar(w, i__ as nat), carry_and <= 1,
            forall|j: int| 0 <= j < i__ ==> a@[j] == ndig(w, j as nat),
            forall|j: int| i__ <= j < la ==> a@[j] == a0[j],
        decreases n__ - i__
//+}
    { let ai = &mut a.as_mut_slice()[i__]; let bi = b[i__]; i__ += 1;
//+{
        proof {
            let i = (i__ - 1) as nat;
            lemma_ncar_step(a0, i, a0[i as int], carry_a as nat);
            lemma_ncar_step(bs, i, bs[i as int], carry_b as nat);
            assert(w[i as int] == dop(0, sdig(true, a0, i), sdig(true, bs, i)));
            lemma_ncar_step(w, i, w[i as int], carry_and as nat);
        }
//+}
        let twos_a = negate_carry(*ai, &mut carry_a);
        let twos_b = negate_carry(bi, &mut carry_b);
        *ai = negate_carry(twos_a & twos_b, &mut carry_and);
    } }
    match __usize_cmp(a.len(), b.len()) {
        Greater => {
            { let mut i__ = b.len(); while i__ < a.len()
//+{
                invariant
                    a@.len() == la, lb <= i__ <= la, a0.len() == la, bs.len() == lb, bs == b@, n == la, val(bs) > 0,
                    w == wdig(0, true, a0, true, bs, n), w.len() == n,
                    carry_a as nat == ncar(a0, i__ as nat), carry_a <= 1,
                    carry_and as nat == ncar(w, i__ as nat), carry_and <= 1,
                    forall|j: int| 0 <= j < i__ ==> a@[j] == ndig(w, j as nat),
                    forall|j: int| i__ <= j < la ==> a@[j] == a0[j],
                decreases la - i__
//+}
            { let ai = &mut a.as_mut_slice()[i__]; i__ += 1;
//+{
                proof {
                    let i = (i__ - 1) as nat;
                    lemma_ncar_step(a0, i, a0[i as int], carry_a as nat);
                    lemma_sdig_high(true, bs, i);
                    lemma_bit_ids(sdig(true, a0, i), sdig(true, bs, i));
                    assert(w[i as int] == dop(0, sdig(true, a0, i), sdig(true, bs, i)));
                    lemma_ncar_step(w, i, w[i as int], carry_and as nat);
                }
//+}
                let twos_a = negate_carry(*ai, &mut carry_a);
                *ai = negate_carry(twos_a, &mut carry_and);
            } }
        }
        Equal => {}
        Less => {
            let extra = &b[a.len()..];
            { let mut i__ = 0; while i__ < extra.len()
//+{
                invariant
                    extra@ =~= bs.subrange(la as int, lb as int), i__ <= extra@.len(), a@.len() == la + i__, la < lb,
                    a0.len() == la, bs.len() == lb, bs == b@, n == lb, val(a0) > 0,
                    w == wdig(0, true, a0, true, bs, n), w.len() == n,
                    carry_b as nat == ncar(bs, (la + i__) as nat), carry_b <= 1,
                    carry_and as nat == ncar(w, (la + i__) as nat), carry_and <= 1,
                    forall|j: int| 0 <= j < la + i__ ==> a@[j] == ndig(w, j as nat),
                decreases extra@.len() - i__
//+}
            { let bi = extra[i__]; i__ += 1;
//+{
                proof {
                    let i = (la + i__ - 1) as nat;
                    lemma_ncar_step(bs, i, bs[i as int], carry_b as nat);
                    lemma_sdig_high(true, a0, i);
                    lemma_bit_ids(sdig(true, a0, i), sdig(true, bs, i));
                    assert(w[i as int] == dop(0, sdig(true, a0, i), sdig(true, bs, i)));
                    lemma_ncar_step(w, i, w[i as int], carry_and as nat);
                }
//+}
                let x__ = {
                    let twos_b = negate_carry(bi, &mut carry_b);
                    negate_carry(twos_b, &mut carry_and)
                }; a.push(x__); } }
        }
    }
    if carry_and != 0 {
        a.push(1);
    }
}
//@ end

// - 1 & +ff = ...f ff & ...0 ff = ...0 ff = +ff
//@ extract src/bigint/bits.rs :: fn bitand_neg_pos rules=R0,R10z,R14,R10s2,R29,R12e,R16u props=C07
fn bitand_neg_pos(a: &mut Vec<BigDigit>, b: &[BigDigit])
//+{
    requires val(old(a)@) > 0
    ensures final(a)@ =~= wdig(0, true, old(a)@, false, b@, b@.len())
//+}
{
//+{
    let ghost a0 = a@;
    let ghost bs = b@;
    let ghost la = a0.len();
    let ghost lb = bs.len();
    let ghost n: nat = lb;
    let ghost w = wdig(0, true, a0, false, bs, n);
//+}
    let mut carry_a = 1;
    { let mut i__ = 0; let n__ = Ord::min(a.len(), b.len()); while i__ < n__
//+{
        invariant
            a@.len() == la, n__ <= la, n__ <= lb, i__ <= n__, a0.len() == la, bs.len() == lb, bs == b@, n == lb,
            w == wdig(0, true, a0, false, bs, n), w.len() == n,
            carry_a as nat == ncar(a0, i__ as nat), carry_a <= 1,
            forall|j: int| 0 <= j < i__ ==> a@[j] == w[j],
            forall|j: int| i__ <= j < la ==> a@[j] == a0[j],
        decreases n__ - i__
//+}
    { let ai = &mut a.as_mut_slice()[i__]; let bi = b[i__]; i__ += 1;
//+{
        proof {
            let i = (i__ - 1) as nat;
            lemma_ncar_step(a0, i, a0[i as int], carry_a as nat);
            lemma_bit_ids(sdig(true, a0, i), sdig(false, bs, i));
            assert(w[i as int] == dop(0, sdig(true, a0, i), sdig(false, bs, i)));
        }
//+}
        let twos_a = negate_carry(*ai, &mut carry_a);
        *ai = twos_a & bi;
    } }
    match __usize_cmp(a.len(), b.len()) {
        Greater => a.truncate(b.len()),
        Equal => {}
        Less => {
            let extra = &b[a.len()..];
            a.extend_from_slice(extra);
//+{
            proof {
                assert forall|j: int| la <= j < lb implies a@[j] == w[j] by {
                    lemma_sdig_high(true, a0, j as nat);
                    lemma_bit_ids(sdig(true, a0, j as nat), sdig(false, bs, j as nat));
                }
            }
//+}
        }
    }
}
//@ end

// + 1 | -ff = ...0 01 | ...f 01 = ...f 01 = -ff
//@ extract src/bigint/bits.rs :: fn bitor_pos_neg rules=R0,R10z,R14,R10s2,R29,R12e,R16u props=C07
fn bitor_pos_neg(a: &mut Vec<BigDigit>, b: &[BigDigit])
//+{
    requires val(b@) > 0
    ensures final(a)@ =~= twd(wdig(1, false, old(a)@, true, b@, b@.len()), b@.len())
//+}
{
//+{
    let ghost a0 = a@;
    let ghost bs = b@;
    let ghost la = a0.len();
    let ghost lb = bs.len();
    let ghost n: nat = lb;
    let ghost w = wdig(1, false, a0, true, bs, n);
//+}
    let mut carry_b = 1;
    let mut carry_or = 1;
    { let mut i__ = 0; let n__ = Ord::min(a.len(), b.len()); while i__ < n__
//+{
        invariant
            a@.len() == la, n__ <= la, n__ <= lb, i__ <= n__, a0.len() == la, bs.len() == lb, bs == b@, n == lb,
            w == wdig(1, false, a0, true, bs, n), w.len() == n,
            carry_b as nat == ncar(bs, i__ as nat), carry_b <= 1, carry_or as nat == ncar(w, i__ as nat), carry_or <= 1,
            forall|j: int| 0 <= j < i__ ==> a@[j] == ndig(w, j as nat),
            forall|j: int| i__ <= j < la ==> a@[j] == a0[j],
        decreases n__ - i__
//+}
    { let ai = &mut a.as_mut_slice()[i__]; let bi = b[i__]; i__ += 1;
//+{
        proof {
            let i = (i__ - 1) as nat;
            lemma_ncar_step(bs, i, bs[i as int], carry_b as nat);
            lemma_bit_ids(sdig(false, a0, i), sdig(true, bs, i));
            assert(w[i as int] == dop(1, sdig(false, a0, i), sdig(true, bs, i)));
            lemma_ncar_step(w, i, w[i as int], carry_or as nat);
        }
//+}
        let twos_b = negate_carry(bi, &mut carry_b);
        *ai = negate_carry(*ai | twos_b, &mut carry_or);
    } }
    match __usize_cmp(a.len(), b.len()) {
        Greater => {
            a.truncate(b.len());
        }
        Equal => {}
        Less => {
            let extra = &b[a.len()..];
            { let mut i__ = 0; while i__ < extra.len()
//+{
                invariant
                    extra@ =~= bs.subrange(la as int, lb as int), i__ <= extra@.len(), a@.len() == la + i__, la < lb,
                    a0.len() == la, bs.len() == lb, bs == b@, n == lb,
                    w == wdig(1, false, a0, true, bs, n), w.len() == n,
                    carry_b as nat == ncar(bs, (la + i__) as nat), carry_b <= 1, carry_or as nat == ncar(w, (la + i__) as nat), carry_or <= 1,
                    forall|j: int| 0 <= j < la + i__ ==> a@[j] == ndig(w, j as nat),
                decreases extra@.len() - i__
//+}
            { let bi = extra[i__]; i__ += 1;
//+{
                proof {
                    let i = (la + i__ - 1) as nat;
                    lemma_ncar_step(bs, i, bs[i as int], carry_b as nat);
                    lemma_sdig_high(false, a0, i);
                    lemma_bit_ids(sdig(false, a0, i), sdig(true, bs, i));
                    assert(w[i as int] == dop(1, sdig(false, a0, i), sdig(true, bs, i)));
                    lemma_ncar_step(w, i, w[i as int], carry_or as nat);
                }
//+}
                let x__ = {
                    let twos_b = negate_carry(bi, &mut carry_b);
                    negate_carry(twos_b, &mut carry_or)
                }; a.push(x__); } }
        }
    }
}
//@ end

// - 1 | +ff = ...f ff | ...0 ff = ...f ff = - 1
//@ extract src/bigint/bits.rs :: fn bitor_neg_pos rules=R0,R10zs,R14,R10s3,R29,R12e,R16u props=C07
fn bitor_neg_pos(a: &mut [BigDigit], b: &[BigDigit])
//+{
    requires val(old(a)@) > 0
    ensures final(a)@ =~= twd(wdig(1, true, old(a)@, false, b@, old(a)@.len()), old(a)@.len())
//+}
{
//+{
    let ghost a0 = a@;
    let ghost bs = b@;
    let ghost la = a0.len();
    let ghost lb = bs.len();
    let ghost n: nat = la;
    let ghost w = wdig(1, true, a0, false, bs, n);
//+}
    let mut carry_a = 1;
    let mut carry_or = 1;
    { let mut i__ = 0; let n__ = Ord::min(a.len(), b.len()); while i__ < n__
//+{
        invariant
            a@.len() == la, n__ <= la, n__ <= lb, i__ <= n__, a0.len() == la, bs.len() == lb, bs == b@, n == la,
            w == wdig(1, true, a0, false, bs, n), w.len() == n,
            carry_a as nat == ncar(a0, i__ as nat), carry_a <= 1, carry_or as nat == ncar(w, i__ as nat), carry_or <= 1,
            forall|j: int| 0 <= j < i__ ==> a@[j] == ndig(w, j as nat),
            forall|j: int| i__ <= j < la ==> a@[j] == a0[j],
        decreases n__ - i__
//+}
    { let ai = &mut a[i__]; let bi = b[i__]; i__ += 1;
//+{
        proof {
            let i = (i__ - 1) as nat;
            lemma_ncar_step(a0, i, a0[i as int], carry_a as nat);
            lemma_bit_ids(sdig(true, a0, i), sdig(false, bs, i));
            assert(w[i as int] == dop(1, sdig(true, a0, i), sdig(false, bs, i)));
            lemma_ncar_step(w, i, w[i as int], carry_or as nat);
        }
//+}
        let twos_a = negate_carry(*ai, &mut carry_a);
        *ai = negate_carry(twos_a | bi, &mut carry_or);
    } }
    if a.len() > b.len() {
        { let mut i__ = b.len(); while i__ < a.len()
//+{
                invariant
                    a@.len() == la, lb <= i__ <= la, a0.len() == la, bs.len() == lb, bs == b@, n == la,
                    w == wdig(1, true, a0, false, bs, n), w.len() == n,
                    carry_a as nat == ncar(a0, i__ as nat), carry_a <= 1, carry_or as nat == ncar(w, i__ as nat), carry_or <= 1,
                    forall|j: int| 0 <= j < i__ ==> a@[j] == ndig(w, j as nat),
                    forall|j: int| i__ <= j < la ==> a@[j] == a0[j],
                decreases la - i__
//+}
        { let ai = &mut a[i__]; i__ += 1;
//+{
            proof {
                let i = (i__ - 1) as nat;
                lemma_ncar_step(a0, i, a0[i as int], carry_a as nat);
                lemma_sdig_high(false, bs, i);
                lemma_bit_ids(sdig(true, a0, i), sdig(false, bs, i));
                assert(w[i as int] == dop(1, sdig(true, a0, i), sdig(false, bs, i)));
                lemma_ncar_step(w, i, w[i as int], carry_or as nat);
            }
//+}
            let twos_a = negate_carry(*ai, &mut carry_a);
            *ai = negate_carry(twos_a, &mut carry_or);
        } }
    }
}
//@ end

// - 1 | -ff = ...f ff | ...f 01 = ...f ff = -1
//@ extract src/bigint/bits.rs :: fn bitor_neg_neg rules=R0,R10z,R14,R10s2,R29,R12e,R16u props=C07
fn bitor_neg_neg(a: &mut Vec<BigDigit>, b: &[BigDigit])
//+{
    requires val(old(a)@) > 0, val(b@) > 0
    ensures final(a)@ =~= twd(wdig(1, true, old(a)@, true, b@, (if old(a)@.len() <= b@.len() { old(a)@.len() } else { b@.len() })), (if old(a)@.len() <= b@.len() { old(a)@.len() } else { b@.len() }))
//+}
{
//+{
    let ghost a0 = a@;
    let ghost bs = b@;
    let ghost la = a0.len();
    let ghost lb = bs.len();
    let ghost n: nat = if la <= lb { la } else { lb };
    let ghost w = wdig(1, true, a0, true, bs, n);
//+}
    let mut carry_a = 1;
    let mut carry_b = 1;
    let mut carry_or = 1;
    { let mut i__ = 0; let n__ = Ord::min(a.len(), b.len()); while i__ < n__
//+{
        invariant
            a@.len() == la, n__ <= la, n__ <= lb, i__ <= n__, a0.len() == la, bs.len() == lb, bs == b@, n == n__,
            w == wdig(1, true, a0, true, bs, n), w.len() == n,
            carry_a as nat == ncar(a0, i__ as nat), carry_a <= 1, carry_b as nat == ncar(bs, i__ as nat), carry_b <= 1, carry_or as nat == ncar(w, i__ as nat), carry_or <= 1,
            forall|j: int| 0 <= j < i__ ==> a@[j] == ndig(w, j as nat),
            forall|j: int| i__ <= j < la ==> a@[j] == a0[j],
        decreases n__ - i__
//+}
    { let ai = &mut a.as_mut_slice()[i__]; let bi = b[i__]; i__ += 1;
//+{
        proof {
            let i = (i__ - 1) as nat;
            lemma_ncar_step(a0, i, a0[i as int], carry_a as nat);
            lemma_ncar_step(bs, i, bs[i as int], carry_b as nat);
            lemma_bit_ids(sdig(true, a0, i), sdig(true, bs, i));
            assert(w[i as int] == dop(1, sdig(true, a0, i), sdig(true, bs, i)));
            lemma_ncar_step(w, i, w[i as int], carry_or as nat);
        }
//+}
        let twos_a = negate_carry(*ai, &mut carry_a);
        let twos_b = negate_carry(bi, &mut carry_b);
        *ai = negate_carry(twos_a | twos_b, &mut carry_or);
    } }
    if a.len() > b.len() {
        a.truncate(b.len());
    }
}
//@ end

// + 1 ^ -ff = ...0 01 ^ ...f 01 = ...f 00 = -100
//@ extract src/bigint/bits.rs :: fn bitxor_pos_neg rules=R0,R10z,R14,R10s2,R29,R12e,R16u props=C07
fn bitxor_pos_neg(a: &mut Vec<BigDigit>, b: &[BigDigit])
//+{
    requires val(b@) > 0
    ensures ({
        let n: nat = (if old(a)@.len() >= b@.len() { old(a)@.len() } else { b@.len() });
        let w = wdig(2, false, old(a)@, true, b@, n);
        final(a)@ =~= (if ncar(w, n) == 1 { twd(w, n).push(1u64) } else { twd(w, n) })
    })
//+}
{
//+{
    let ghost a0 = a@;
    let ghost bs = b@;
    let ghost la = a0.len();
    let ghost lb = bs.len();
    let ghost n: nat = if la >= lb { la } else { lb };
    let ghost w = wdig(2, false, a0, true, bs, n);
//+}
    let mut carry_b = 1;
    let mut carry_xor = 1;
    { let mut i__ = 0; let n__ = Ord::min(a.len(), b.len()); while i__ < n__
//+{
        invariant
            a@.len() == la, n__ <= la, n__ <= lb, i__ <= n__, a0.len() == la, bs.len() == lb, bs == b@, la <= n, lb <= n,
            w == wdig(2, false, a0, true, bs, n), w.len() == n,
            carry_b as nat == ncar(bs, i__ as nat), carry_b <= 1, carry_xor as nat == ncar(w, i__ as nat), carry_xor <= 1,
            forall|j: int| 0 <= j < i__ ==> a@[j] == ndig(w, j as nat),
            forall|j: int| i__ <= j < la ==> a@[j] == a0[j],
        decreases n__ - i__
//+}
    { let ai = &mut a.as_mut_slice()[i__]; let bi = b[i__]; i__ += 1;
//+{
        proof {
            let i = (i__ - 1) as nat;
            lemma_ncar_step(bs, i, bs[i as int], carry_b as nat);
            lemma_bit_ids(sdig(false, a0, i), sdig(true, bs, i));
            assert(w[i as int] == dop(2, sdig(false, a0, i), sdig(true, bs, i)));
            lemma_ncar_step(w, i, w[i as int], carry_xor as nat);
        }
//+}
        let twos_b = negate_carry(bi, &mut carry_b);
        *ai = negate_carry(*ai ^ twos_b, &mut carry_xor);
    } }
    match __usize_cmp(a.len(), b.len()) {
        Greater => {
            { let mut i__ = b.len(); while i__ < a.len()
//+{
                invariant
                    a@.len() == la, lb <= i__ <= la, a0.len() == la, bs.len() == lb, bs == b@, n == la, val(bs) > 0,
                    w == wdig(2, false, a0, true, bs, n), w.len() == n,
                    carry_xor as nat == ncar(w, i__ as nat), carry_xor <= 1,
                    forall|j: int| 0 <= j < i__ ==> a@[j] == ndig(w, j as nat),
                    forall|j: int| i__ <= j < la ==> a@[j] == a0[j],
                decreases la - i__
//+}
            { let ai = &mut a.as_mut_slice()[i__]; i__ += 1;
//+{
                proof {
                    let i = (i__ - 1) as nat;
                    lemma_sdig_high(true, bs, i);
                    lemma_bit_ids(sdig(false, a0, i), sdig(true, bs, i));
                    assert(w[i as int] == dop(2, sdig(false, a0, i), sdig(true, bs, i)));
                    lemma_ncar_step(w, i, w[i as int], carry_xor as nat);
                }
//+}
                let twos_b = !0;
                *ai = negate_carry(*ai ^ twos_b, &mut carry_xor);
            } }
        }
        Equal => {}
        Less => {
            let extra = &b[a.len()..];
            { let mut i__ = 0; while i__ < extra.len()
//+{
                invariant
                    extra@ =~= bs.subrange(la as int, lb as int), i__ <= extra@.len(), a@.len() == la + i__, la < lb,
                    a0.len() == la, bs.len() == lb, bs == b@, n == lb,
                    w == wdig(2, false, a0, true, bs, n), w.len() == n,
                    carry_b as nat == ncar(bs, (la + i__) as nat), carry_b <= 1, carry_xor as nat == ncar(w, (la + i__) as nat), carry_xor <= 1,
                    forall|j: int| 0 <= j < la + i__ ==> a@[j] == ndig(w, j as nat),
                decreases extra@.len() - i__
//+}
            { let bi = extra[i__]; i__ += 1;
//+{
                proof {
                    let i = (la + i__ - 1) as nat;
                    lemma_ncar_step(bs, i, bs[i as int], carry_b as nat);
                    lemma_sdig_high(false, a0, i);
                    lemma_bit_ids(sdig(false, a0, i), sdig(true, bs, i));
                    assert(w[i as int] == dop(2, sdig(false, a0, i), sdig(true, bs, i)));
                    lemma_ncar_step(w, i, w[i as int], carry_xor as nat);
                }
//+}
                let x__ = {
                    let twos_b = negate_carry(bi, &mut carry_b);
                    negate_carry(twos_b, &mut carry_xor)
                }; a.push(x__); } }
        }
    }
    if carry_xor != 0 {
        a.push(1);
    }
}
//@ end

// - 1 ^ +ff = ...f ff ^ ...0 ff = ...f 00 = -100
//@ extract src/bigint/bits.rs :: fn bitxor_neg_pos rules=R0,R10z,R14,R10s2,R29,R12e,R16u props=C07
fn bitxor_neg_pos(a: &mut Vec<BigDigit>, b: &[BigDigit])
//+{
    requires val(old(a)@) > 0
    ensures ({
        let n: nat = (if old(a)@.len() >= b@.len() { old(a)@.len() } else { b@.len() });
        let w = wdig(2, true, old(a)@, false, b@, n);
        final(a)@ =~= (if ncar(w, n) == 1 { twd(w, n).push(1u64) } else { twd(w, n) })
    })
//+}
{
//+{
    let ghost a0 = a@;
    let ghost bs = b@;
    let ghost la = a0.len();
    let ghost lb = bs.len();
    let ghost n: nat = if la >= lb { la } else { lb };
    let ghost w = wdig(2, true, a0, false, bs, n);
//+}
    let mut carry_a = 1;
    let mut carry_xor = 1;
    { let mut i__ = 0; let n__ = Ord::min(a.len(), b.len()); while i__ < n__
//+{
        invariant
            a@.len() == la, n__ <= la, n__ <= lb, i__ <= n__, a0.len() == la, bs.len() == lb, bs == b@, la <= n, lb <= n,
            w == wdig(2, true, a0, false, bs, n), w.len() == n,
            carry_a as nat == ncar(a0, i__ as nat), carry_a <= 1, carry_xor as nat == ncar(w, i__ as nat), carry_xor <= 1,
            forall|j: int| 0 <= j < i__ ==> a@[j] == ndig(w, j as nat),
            forall|j: int| i__ <= j < la ==> a@[j] == a0[j],
        decreases n__ - i__
//+}
    { let ai = &mut a.as_mut_slice()[i__]; let bi = b[i__]; i__ += 1;
//+{
        proof {
            let i = (i__ - 1) as nat;
            lemma_ncar_step(a0, i, a0[i as int], carry_a as nat);
            lemma_bit_ids(sdig(true, a0, i), sdig(false, bs, i));
            assert(w[i as int] == dop(2, sdig(true, a0, i), sdig(false, bs, i)));
            lemma_ncar_step(w, i, w[i as int], carry_xor as nat);
        }
//+}
        let twos_a = negate_carry(*ai, &mut carry_a);
        *ai = negate_carry(twos_a ^ bi, &mut carry_xor);
    } }
    match __usize_cmp(a.len(), b.len()) {
        Greater => {
            { let mut i__ = b.len(); while i__ < a.len()
//+{
                invariant
                    a@.len() == la, lb <= i__ <= la, a0.len() == la, bs.len() == lb, bs == b@, n == la,
                    w == wdig(2, true, a0, false, bs, n), w.len() == n,
                    carry_a as nat == ncar(a0, i__ as nat), carry_a <= 1, carry_xor as nat == ncar(w, i__ as nat), carry_xor <= 1,
                    forall|j: int| 0 <= j < i__ ==> a@[j] == ndig(w, j as nat),
                    forall|j: int| i__ <= j < la ==> a@[j] == a0[j],
                decreases la - i__
//+}
            { let ai = &mut a.as_mut_slice()[i__]; i__ += 1;
//+{
                proof {
                    let i = (i__ - 1) as nat;
                    lemma_ncar_step(a0, i, a0[i as int], carry_a as nat);
                    lemma_sdig_high(false, bs, i);
                    lemma_bit_ids(sdig(true, a0, i), sdig(false, bs, i));
                    assert(w[i as int] == dop(2, sdig(true, a0, i), sdig(false, bs, i)));
                    lemma_ncar_step(w, i, w[i as int], carry_xor as nat);
                }
//+}
                let twos_a = negate_carry(*ai, &mut carry_a);
                *ai = negate_carry(twos_a, &mut carry_xor);
            } }
        }
        Equal => {}
        Less => {
            let extra = &b[a.len()..];
            { let mut i__ = 0; while i__ < extra.len()
//+{
                invariant
                    extra@ =~= bs.subrange(la as int, lb as int), i__ <= extra@.len(), a@.len() == la + i__, la < lb,
                    a0.len() == la, bs.len() == lb, bs == b@, n == lb, val(a0) > 0,
                    w == wdig(2, true, a0, false, bs, n), w.len() == n,
                    carry_xor as nat == ncar(w, (la + i__) as nat), carry_xor <= 1,
                    forall|j: int| 0 <= j < la + i__ ==> a@[j] == ndig(w, j as nat),
                decreases extra@.len() - i__
//+}
            { let bi = extra[i__]; i__ += 1;
//+{
                proof {
                    let i = (la + i__ - 1) as nat;
                    lemma_sdig_high(true, a0, i);
                    lemma_bit_ids(sdig(true, a0, i), sdig(false, bs, i));
                    assert(w[i as int] == dop(2, sdig(true, a0, i), sdig(false, bs, i)));
                    lemma_ncar_step(w, i, w[i as int], carry_xor as nat);
                }
//+}
                let x__ = {
                    let twos_a = !0;
                    negate_carry(twos_a ^ bi, &mut carry_xor)
                }; a.push(x__); } }
        }
    }
    if carry_xor != 0 {
        a.push(1);
    }
}
//@ end

// - 1 ^ -ff = ...f ff ^ ...f 01 = ...0 fe = +fe
//@ extract src/bigint/bits.rs :: fn bitxor_neg_neg rules=R0,R10z,R14,R10s2,R29,R12e,R16u props=C07
fn bitxor_neg_neg(a: &mut Vec<BigDigit>, b: &[BigDigit])
//+{
    requires val(old(a)@) > 0, val(b@) > 0
    ensures final(a)@ =~= wdig(2, true, old(a)@, true, b@, (if old(a)@.len() >= b@.len() { old(a)@.len() } else { b@.len() }))
//+}
{
//+{
    let ghost a0 = a@;
    let ghost bs = b@;
    let ghost la = a0.len();
    let ghost lb = bs.len();
    let ghost n: nat = if la >= lb { la } else { lb };
    let ghost w = wdig(2, true, a0, true, bs, n);
//+}
    let mut carry_a = 1;
    let mut carry_b = 1;
    { let mut i__ = 0; let n__ = Ord::min(a.len(), b.len()); while i__ < n__
//+{
        invariant
            a@.len() == la, n__ <= la, n__ <= lb, i__ <= n__, a0.len() == la, bs.len() == lb, bs == b@, la <= n, lb <= n,
            w == wdig(2, true, a0, true, bs, n), w.len() == n,
            carry_a as nat == ncar(a0, i__ as nat), carry_a <= 1, carry_b as nat == ncar(bs, i__ as nat), carry_b <= 1,
            forall|j: int| 0 <= j < i__ ==> a@[j] == w[j],
            forall|j: int| i__ <= j < la ==> a@[j] == a0[j],
        decreases n__ - i__
//+}
    { let ai = &mut a.as_mut_slice()[i__]; let bi = b[i__]; i__ += 1;
//+{
        proof {
            let i = (i__ - 1) as nat;
            lemma_ncar_step(a0, i, a0[i as int], carry_a as nat);
            lemma_ncar_step(bs, i, bs[i as int], carry_b as nat);
            lemma_bit_ids(sdig(true, a0, i), sdig(true, bs, i));
            assert(w[i as int] == dop(2, sdig(true, a0, i), sdig(true, bs, i)));
        }
//+}
        let twos_a = negate_carry(*ai, &mut carry_a);
        let twos_b = negate_carry(bi, &mut carry_b);
        *ai = twos_a ^ twos_b;
    } }
    match __usize_cmp(a.len(), b.len()) {
        Greater => {
            { let mut i__ = b.len(); while i__ < a.len()
//+{
                invariant
                    a@.len() == la, lb <= i__ <= la, a0.len() == la, bs.len() == lb, bs == b@, n == la, val(bs) > 0,
                    w == wdig(2, true, a0, true, bs, n), w.len() == n,
                    carry_a as nat == ncar(a0, i__ as nat), carry_a <= 1,
                    forall|j: int| 0 <= j < i__ ==> a@[j] == w[j],
                    forall|j: int| i__ <= j < la ==> a@[j] == a0[j],
                decreases la - i__
//+}
            { let ai = &mut a.as_mut_slice()[i__]; i__ += 1;
//+{
                proof {
                    let i = (i__ - 1) as nat;
                    lemma_ncar_step(a0, i, a0[i as int], carry_a as nat);
                    lemma_sdig_high(true, bs, i);
                    lemma_bit_ids(sdig(true, a0, i), sdig(true, bs, i));
                    assert(w[i as int] == dop(2, sdig(true, a0, i), sdig(true, bs, i)));
                }
//+}
                let twos_a = negate_carry(*ai, &mut carry_a);
                let twos_b = !0;
                *ai = twos_a ^ twos_b;
            } }
        }
        Equal => {}
        Less => {
            let extra = &b[a.len()..];
            { let mut i__ = 0; while i__ < extra.len()
//+{
                invariant
                    extra@ =~= bs.subrange(la as int, lb as int), i__ <= extra@.len(), a@.len() == la + i__, la < lb,
                    a0.len() == la, bs.len() == lb, bs == b@, n == lb, val(a0) > 0,
                    w == wdig(2, true, a0, true, bs, n), w.len() == n,
                    carry_b as nat == ncar(bs, (la + i__) as nat), carry_b <= 1,
                    forall|j: int| 0 <= j < la + i__ ==> a@[j] == w[j],
                decreases extra@.len() - i__
//+}
            { let bi = extra[i__]; i__ += 1;
//+{
                proof {
                    let i = (la + i__ - 1) as nat;
                    lemma_ncar_step(bs, i, bs[i as int], carry_b as nat);
                    lemma_sdig_high(true, a0, i);
                    lemma_bit_ids(sdig(true, a0, i), sdig(true, bs, i));
                    assert(w[i as int] == dop(2, sdig(true, a0, i), sdig(true, bs, i)));
                }
//+}
                let x__ = {
                    let twos_a = !0;
                    let twos_b = negate_carry(bi, &mut carry_b);
                    twos_a ^ twos_b
                }; a.push(x__); } }
        }
    }
}
//@ end

} // mod u
} // verus!
fn main() {}
