// base-2^32 little-endian value of a u32 digit slice (constructors, exports, serde)
pub open spec fn B32() -> nat { 0x1_0000_0000nat }
pub open spec fn val32p(s: Seq<u32>, k: nat) -> nat
    decreases k
{
    if k == 0 { 0 } else { (s[0] as nat) + B32() * val32p(s.subrange(1, s.len() as int), (k - 1) as nat) }
}
pub open spec fn val32(s: Seq<u32>) -> nat { val32p(s, s.len()) }
