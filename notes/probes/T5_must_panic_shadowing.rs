use vstd::prelude::*;
verus! {
// must-panic modelling: shadow panic!/assert! so that a panic is a diverging call with no precondition
#[verifier::external_body]
fn __diverge() -> (r: bool)
    ensures false
{ loop {} }

macro_rules! assert {
    ($c:expr $(, $($t:tt)*)?) => { if !($c) { __diverge(); } };
}

fn must_panic(x: u64) -> (r: u64)
    requires x == 0
    ensures false
{
    assert!(x != 0, "msg {}", x);
    x
}
} // verus!
fn main() {}
