// BigUint operator forms as seen by BigInt-level units. The canonical forms are proved in u_addsub / u_mul ...;
// every other by-value/by-reference form is a macro-generated forwarder whose agreement with the canonical form is
// discharged by engine F (C10). Their contracts are therefore the canonical contracts.
impl AddSpecImpl<&BigUint> for &BigUint {
    open spec fn obeys_add_spec() -> bool { false }
    open spec fn add_req(self, rhs: &BigUint) -> bool { self.wf() && rhs.wf() }
    open spec fn add_spec(self, rhs: &BigUint) -> BigUint { arbitrary() }
}
impl Add<&BigUint> for &BigUint {
    type Output = BigUint;
    //@ assume BigUint:Add<&BigUint>for(&BigUint) : macro-generated forwarder to the canonical form (agreement discharged by engine F, C10)
    #[verifier::external_body]
    fn add(self, other: &BigUint) -> (r: BigUint)
        ensures r.wf(), r.v() == self.v() + other.v()
    { unimplemented!() }
}

impl AddSpecImpl<BigUint> for &BigUint {
    open spec fn obeys_add_spec() -> bool { false }
    open spec fn add_req(self, rhs: BigUint) -> bool { self.wf() && rhs.wf() }
    open spec fn add_spec(self, rhs: BigUint) -> BigUint { arbitrary() }
}
impl Add<BigUint> for &BigUint {
    type Output = BigUint;
    //@ assume BigUint:Add<BigUint>for(&BigUint) : macro-generated forwarder to the canonical form (agreement discharged by engine F, C10)
    #[verifier::external_body]
    fn add(self, other: BigUint) -> (r: BigUint)
        ensures r.wf(), r.v() == self.v() + other.v()
    { unimplemented!() }
}

impl AddSpecImpl<&BigUint> for BigUint {
    open spec fn obeys_add_spec() -> bool { false }
    open spec fn add_req(self, rhs: &BigUint) -> bool { self.wf() && rhs.wf() }
    open spec fn add_spec(self, rhs: &BigUint) -> BigUint { arbitrary() }
}
impl Add<&BigUint> for BigUint {
    type Output = BigUint;
    //@ assume BigUint:Add<&BigUint>for(BigUint) : canonical form, proved in unit u_addsub (same contract)
    #[verifier::external_body]
    fn add(self, other: &BigUint) -> (r: BigUint)
        ensures r.wf(), r.v() == self.v() + other.v()
    { unimplemented!() }
}

impl AddSpecImpl<BigUint> for BigUint {
    open spec fn obeys_add_spec() -> bool { false }
    open spec fn add_req(self, rhs: BigUint) -> bool { self.wf() && rhs.wf() }
    open spec fn add_spec(self, rhs: BigUint) -> BigUint { arbitrary() }
}
impl Add<BigUint> for BigUint {
    type Output = BigUint;
    //@ assume BigUint:Add<BigUint>for(BigUint) : macro-generated forwarder to the canonical form (agreement discharged by engine F, C10)
    #[verifier::external_body]
    fn add(self, other: BigUint) -> (r: BigUint)
        ensures r.wf(), r.v() == self.v() + other.v()
    { unimplemented!() }
}

impl SubSpecImpl<&BigUint> for &BigUint {
    open spec fn obeys_sub_spec() -> bool { false }
    open spec fn sub_req(self, rhs: &BigUint) -> bool { self.wf() && rhs.wf() && (!mp() ==> self.v() >= rhs.v()) }
    open spec fn sub_spec(self, rhs: &BigUint) -> BigUint { arbitrary() }
}
impl Sub<&BigUint> for &BigUint {
    type Output = BigUint;
    //@ assume BigUint:Sub<&BigUint>for(&BigUint) : macro-generated forwarder to the canonical form (agreement discharged by engine F, C10)
    #[verifier::external_body]
    fn sub(self, other: &BigUint) -> (r: BigUint)
        ensures r.wf(), mp() ==> self.v() >= other.v(), r.v() + other.v() == self.v()
    { unimplemented!() }
}

impl SubSpecImpl<BigUint> for &BigUint {
    open spec fn obeys_sub_spec() -> bool { false }
    open spec fn sub_req(self, rhs: BigUint) -> bool { self.wf() && rhs.wf() && (!mp() ==> self.v() >= rhs.v()) }
    open spec fn sub_spec(self, rhs: BigUint) -> BigUint { arbitrary() }
}
impl Sub<BigUint> for &BigUint {
    type Output = BigUint;
    //@ assume BigUint:Sub<BigUint>for(&BigUint) : canonical form, proved in unit u_addsub (same contract)
    #[verifier::external_body]
    fn sub(self, other: BigUint) -> (r: BigUint)
        ensures r.wf(), mp() ==> self.v() >= other.v(), r.v() + other.v() == self.v()
    { unimplemented!() }
}

impl SubSpecImpl<&BigUint> for BigUint {
    open spec fn obeys_sub_spec() -> bool { false }
    open spec fn sub_req(self, rhs: &BigUint) -> bool { self.wf() && rhs.wf() && (!mp() ==> self.v() >= rhs.v()) }
    open spec fn sub_spec(self, rhs: &BigUint) -> BigUint { arbitrary() }
}
impl Sub<&BigUint> for BigUint {
    type Output = BigUint;
    //@ assume BigUint:Sub<&BigUint>for(BigUint) : canonical form, proved in unit u_addsub (same contract)
    #[verifier::external_body]
    fn sub(self, other: &BigUint) -> (r: BigUint)
        ensures r.wf(), mp() ==> self.v() >= other.v(), r.v() + other.v() == self.v()
    { unimplemented!() }
}

impl SubSpecImpl<BigUint> for BigUint {
    open spec fn obeys_sub_spec() -> bool { false }
    open spec fn sub_req(self, rhs: BigUint) -> bool { self.wf() && rhs.wf() && (!mp() ==> self.v() >= rhs.v()) }
    open spec fn sub_spec(self, rhs: BigUint) -> BigUint { arbitrary() }
}
impl Sub<BigUint> for BigUint {
    type Output = BigUint;
    //@ assume BigUint:Sub<BigUint>for(BigUint) : macro-generated forwarder to the canonical form (agreement discharged by engine F, C10)
    #[verifier::external_body]
    fn sub(self, other: BigUint) -> (r: BigUint)
        ensures r.wf(), mp() ==> self.v() >= other.v(), r.v() + other.v() == self.v()
    { unimplemented!() }
}
