//@ unit u_radix : radix/text export shells: radix assertions, digit bounds, ASCII mapping (src/biguint/convert.rs, src/biguint.rs, src/bigint.rs)
#![feature(allocator_api)]
use vstd::prelude::*;
use vstd::std_specs::iter::IteratorSpec;
verus! {
//@ include prelude/core.rs
//@ include prelude/std_specs.rs
//@ include prelude/panic.rs
//@ include prelude/radixval.rs
//@ include prelude/strbytes.rs
//@ include prelude/fmtmodel.rs
//@ extract src/bigint.rs :: enum Sign attrs=1
#[derive(/*+*/Structural, /*-*/PartialEq, PartialOrd, Eq, Ord, Copy, Clone, Debug, Hash)]
pub enum Sign {
    Minus,
    NoSign,
    Plus,
}
//@ end
pub mod u {
use super::*;
use Sign::*;

pub mod big_digit {
    use vstd::prelude::*;
    pub type BigDigit = u64;
//@ extract src/lib.rs :: mod big_digit :: const BITS
    pub(crate) const BITS: u8 = BigDigit::BITS as u8;
//@ end
}

//@ extract src/biguint.rs :: struct BigUint
pub struct BigUint {
    data: Vec<BigDigit>,
}
//@ end
//@ include prelude/biguint_view.rs
pub open spec fn p2(k: nat) -> nat { vstd::arithmetic::power2::pow2(k) }
impl BigUint {
//@ extract src/biguint.rs :: impl BigUint :: const ZERO rules=R9,R13 label=BigUint_ZERO
    exec const ZERO: Self /*+*/ensures Self::ZERO.data@.len() == 0 /*-*/{ BigUint { data: Vec::new() } }
//@ end
//@ stub u_core/is_zero
}

//@ extract src/lib.rs :: struct ParseBigIntError attrs=1
#[derive(Debug, Clone, PartialEq, Eq)]
pub struct ParseBigIntError {
    kind: BigIntErrorKind,
}
//@ end
//@ extract src/lib.rs :: enum BigIntErrorKind attrs=1
#[derive(Debug, Clone, PartialEq, Eq)]
enum BigIntErrorKind {
    Empty,
    InvalidDigit,
}
//@ end
impl ParseBigIntError {
    pub closed spec fn is_empty_kind(&self) -> bool { self.kind is Empty }
//@ extract src/lib.rs :: impl ParseBigIntError :: fn empty props=C06
    fn empty() -> /*+*/(r: /*-*/Self/*+*/)/*-*/
//+{
        ensures r.is_empty_kind()
//+}
    {
        ParseBigIntError {
            kind: BigIntErrorKind::Empty,
        }
    }
//@ end
//@ extract src/lib.rs :: impl ParseBigIntError :: fn invalid props=C06
    fn invalid() -> /*+*/(r: /*-*/Self/*+*/)/*-*/
//+{
        ensures !r.is_empty_kind()
//+}
    {
        ParseBigIntError {
            kind: BigIntErrorKind::InvalidDigit,
        }
    }
//@ end
}
pub mod convert {
use super::*;
pub open spec fn digits_below(s: Seq<u8>, radix: u32) -> bool { forall|i: int| 0 <= i < s.len() ==> (#[trigger] s[i] as u32) < radix }

/// for a power of two v, 31 - leading_zeros(v) is its exponent
pub proof fn lemma_ilog2(v: u32)
    requires v >= 1
    ensures ({ let r = (31 - vstd::std_specs::bits::u32_leading_zeros(v)) as u8; r < 32 && (is_pow2_u32(v) ==> (1u32 << r) == v) })
{
    vstd::std_specs::bits::axiom_u32_leading_zeros(v);
    let lz = vstd::std_specs::bits::u32_leading_zeros(v);
    assert(lz < 32);
    let lzu = lz as u32;
    let r: u32 = sub(31u32, lzu);
    assert(r == (31 - lz) as u32);
    assert((v >> r) & 1 != 0);
    assert((v >> r) & 1 == 1) by (bit_vector) requires (v >> r) & 1 != 0;
    if is_pow2_u32(v) {
        let w = (v - 1) as u32;
        assert(v == 1u32 << r) by (bit_vector) requires r < 32, (v >> r) & 1 == 1, v & w == 0, w == sub(v, 1u32), v != 0;
    }
}
// the generic helpers fls / ilog2 (T: PrimInt, num_traits) as their only instance in use, T = u32
//@ extract src/biguint/convert.rs :: fn fls tysub=<T:PrimInt>=>;v:T=>v:u32;mem::size_of::<T>()=>4usize props=C06,C14
fn fls(v: u32) -> /*+*/(r: /*-*/u8/*+*/)/*-*/
//+{
    ensures r as int == 32 - vstd::std_specs::bits::u32_leading_zeros(v) as int
//+}
{
//+{
    proof { vstd::std_specs::bits::axiom_u32_leading_zeros(v); }
//+}
    4usize as u8 * 8 - v.leading_zeros() as u8
}
//@ end
//@ extract src/biguint/convert.rs :: fn ilog2 tysub=<T:PrimInt>=>;v:T=>v:u32 props=C06,C14
fn ilog2(v: u32) -> /*+*/(r: /*-*/u8/*+*/)/*-*/
//+{
    requires v >= 1
    ensures r < 32, is_pow2_u32(v) ==> (1u32 << r) == v
//+}
{
//+{
    proof { lemma_ilog2(v); vstd::std_specs::bits::axiom_u32_leading_zeros(v); }
//+}
    fls(v) - 1
}
//@ end
//@ stub u_digits/to_bitwise_digits_le

//@ stub u_digits/to_inexact_bitwise_digits_le

//@ stub u_radixcore/to_radix_digits_le
//@ stub u_radixcore/from_radix_digits_be
//@ stub u_digits/from_bitwise_digits_le
//@ stub u_digits/from_inexact_bitwise_digits_le

pub proof fn lemma_pow2_bits(radix: u32, bits: u8)
    requires 2 <= radix <= 256, bits < 32, (1u32 << bits) == radix
    ensures 1 <= bits <= 8
{
    assert(1 <= bits <= 8) by (bit_vector) requires 2 <= radix <= 256, bits < 32, (1u32 << bits) == radix;
}

pub proof fn lemma_not_pow2_range(radix: u32)
    requires 2 <= radix <= 256, !is_pow2_u32(radix)
    ensures 3 <= radix <= 255
{
    assert(is_pow2_u32(2)) by (bit_vector) requires true ==> true;
    assert(2u32 & ((2u32 - 1) as u32) == 0) by (bit_vector);
    assert(256u32 & ((256u32 - 1) as u32) == 0) by (bit_vector);
}

/// a power-of-two radix 2 <= radix <= 256 with (1 << bits) == radix is 2^bits
pub proof fn lemma_radix_is_p2(radix: u32, bits: u8)
    requires 1 <= bits <= 8, (1u32 << bits) == radix
    ensures radix as nat == p2(bits as nat)
{
    vstd::arithmetic::power2::lemma2_to64();
    assert((1u32 << 1u8) == 2 && (1u32 << 2u8) == 4 && (1u32 << 3u8) == 8 && (1u32 << 4u8) == 16 && (1u32 << 5u8) == 32 && (1u32 << 6u8) == 64 && (1u32 << 7u8) == 128 && (1u32 << 8u8) == 256) by (bit_vector);
}

//@ extract src/biguint/convert.rs :: fn to_radix_le rules=R0,R11 props=C06,C14
pub(super) fn to_radix_le(u: &BigUint, radix: u32) -> /*+*/(r: /*-*/Vec<u8>/*+*/)/*-*/
//+{
    requires u.wf(), !mp() ==> 2 <= radix <= 256
    ensures mp() ==> 2 <= radix <= 256, r@.len() >= 1, digits_below(r@, radix),
        u.v() == 0 ==> r@ =~= seq![0u8],
        valr(r@, radix as nat, r@.len()) == u.v(),
        u.v() != 0 ==> r@[r@.len() - 1] != 0,
//+}
{
    __assert(2 <= radix && radix <= 256);
    if u.is_zero() {
//+{
        proof { assert(valr(seq![0u8], radix as nat, 1) == valr(seq![0u8], radix as nat, 0) + 0 * (vstd::arithmetic::power::pow(radix as int, 0) as nat)); assert(0 * (vstd::arithmetic::power::pow(radix as int, 0) as nat) == 0) by (nonlinear_arith); }
//+}
        /*+*/let z = /*-*/vec![0]/*+*/; proof { assert(z@ =~= seq![0u8]); } z/*-*/
    } else if radix.is_power_of_two() {
        // Powers of two can use bitwise masks and shifting instead of division
        let bits = ilog2(radix);
//+{
        proof { lemma_pow2_bits(radix, bits); }
//+}
        /*+*/let r = /*-*/if big_digit::BITS % bits == 0 {
            to_bitwise_digits_le(u, bits)
        } else {
            to_inexact_bitwise_digits_le(u, bits)
        }/*+*/;
        proof {
            lemma_valb_is_valr(r@, bits as nat, r@.len());
            lemma_radix_is_p2(radix, bits);
        }
        r/*-*/
    } else if radix == 10 {
        // 10 is so common that it's worth separating out for const-propagation.
        // Optimizers can often turn constant division into a faster multiplication.
//+{
        proof { assert(!is_pow2_u32(10)) by (bit_vector) requires true ==> true; assert(10u32 & ((10u32 - 1) as u32) != 0) by (bit_vector); }
//+}
        to_radix_digits_le(u, 10)
    } else {
//+{
        proof { lemma_not_pow2_range(radix); }
//+}
        to_radix_digits_le(u, radix)
    }
}
//@ end


pub open spec fn has_bad_digit(s: Seq<u8>, radix: u32) -> bool { radix != 256 && exists|i: int| 0 <= i < s.len() && s[i] as u32 >= radix }

pub proof fn lemma_digits_ok(s: Seq<u8>, radix: u32)
    requires 2 <= radix <= 256, !(radix != 256 && exists|i: int| 0 <= i < s.len() && s[i] >= (radix as u8))
    ensures digits_below(s, radix), !has_bad_digit(s, radix)
{
    assert forall|i: int| 0 <= i < s.len() implies (#[trigger] s[i] as u32) < radix by {
        if radix != 256 { assert(!(s[i] >= (radix as u8))); assert((radix as u8) as u32 == radix); }
    }
}

pub proof fn lemma_digits_bad(s: Seq<u8>, radix: u32)
    requires 2 <= radix < 256, exists|i: int| 0 <= i < s.len() && s[i] >= (radix as u8)
    ensures has_bad_digit(s, radix)
{
    let i = choose|i: int| 0 <= i < s.len() && s[i] >= (radix as u8);
    assert((radix as u8) as u32 == radix);
    assert(s[i] as u32 >= radix);
}

pub proof fn lemma_rev_rev(s: Seq<u8>)
    ensures rev8(rev8(s)) =~= s
{
}

//@ extract src/biguint/convert.rs :: fn from_radix_be rules=R0,R11,R12d,R30e props=C06,C14
pub(super) fn from_radix_be(buf: &[u8], radix: u32) -> /*+*/(r: /*-*/Option<BigUint>/*+*/)/*-*/
//+{
    requires !mp() ==> 2 <= radix <= 256
    ensures mp() ==> 2 <= radix <= 256,
        r is None <==> has_bad_digit(buf@, radix),
        r is Some ==> r.unwrap().wf() && r.unwrap().v() == valr(rev8(buf@), radix as nat, buf@.len()),
//+}
{
    __assert(2 <= radix && radix <= 256);

    if buf.is_empty() {
//+{
        proof { assert(rev8(buf@) =~= buf@); }
//+}
        return Some(BigUint::ZERO);
    }

    if radix != 256 && __any_ge(buf, radix as u8) {
//+{
        proof { lemma_digits_bad(buf@, radix); }
//+}
        return None;
    }
//+{
    proof { lemma_digits_ok(buf@, radix); }
//+}

    let res = if radix.is_power_of_two() {
        // Powers of two can use bitwise masks and shifting instead of multiplication
        let bits = ilog2(radix);
//+{
        proof { lemma_pow2_bits(radix, bits); lemma_radix_is_p2(radix, bits); }
//+}
        let mut v = buf.to_vec();
//+{
        assert(v@ == buf@);
//+}
        v.reverse();
//+{
        proof {
            assert(v@ =~= rev8(buf@));
            lemma_valb_is_valr(v@, bits as nat, v@.len());
            assert forall|i: int| 0 <= i < v@.len() implies (#[trigger] v@[i] as nat) < p2(bits as nat) by { assert(v@[i] == buf@[buf@.len() - 1 - i]); }
        }
//+}
        if big_digit::BITS % bits == 0 {
            from_bitwise_digits_le(&v, bits)
        } else {
            from_inexact_bitwise_digits_le(&v, bits)
        }
    } else {
//+{
        proof { lemma_not_pow2_range(radix); lemma_valbe_is_valr(buf@, radix as nat); }
//+}
        from_radix_digits_be(buf, radix)
    };

    Some(res)
}
//@ end

// ------------------------------------------------------------------ text parsing
/// value of an ASCII digit character for radices up to 36 (either letter case); 255 for every other byte
pub open spec fn cval(b: u8) -> u8 {
    if 48 <= b <= 57 { (b - 48) as u8 } else if 97 <= b <= 122 { (b - 97 + 10) as u8 } else if 65 <= b <= 90 { (b - 65 + 10) as u8 } else { 255u8 }
}
/// the digit values of the non-underscore bytes among the first n bytes of t, in order
pub open spec fn digs(t: Seq<u8>, n: nat) -> Seq<u8>
    decreases n
{
    if n == 0 { Seq::empty() } else if t[n - 1] == 95 { digs(t, (n - 1) as nat) } else { digs(t, (n - 1) as nat).push(cval(t[n - 1])) }
}
/// the text after one optional '+' (a second '+' is left in place and is then an invalid digit)
pub open spec fn unsigned_body(s: Seq<u8>) -> Seq<u8> {
    if s.len() > 0 && s[0] == 43 && !(s.len() > 1 && s[1] == 43) { s.subrange(1, s.len() as int) } else { s }
}
/// well-formed digits: not empty, not starting with '_', every byte '_' or a digit below the radix
pub open spec fn body_ok(t: Seq<u8>, radix: u32) -> bool {
    t.len() > 0 && t[0] != 95 && forall|i: int| 0 <= i < t.len() ==> t[i] == 95 || (#[trigger] cval(t[i]) as u32) < radix
}
/// the number denoted by the digit characters of t, most significant first
pub open spec fn text_val(t: Seq<u8>, radix: u32) -> nat {
    valr(rev8(digs(t, t.len())), radix as nat, digs(t, t.len()).len())
}

impl BigUint {
    // contract-only re-homing of `impl Num for BigUint` / `impl FromStr for BigUint` (external traits)
//@ extract src/biguint/convert.rs :: impl Num for BigUint :: fn from_str_radix rules=R0,R11,R48 props=C06,C14 label=biguint_from_str_radix
/*+*/#[verifier::loop_isolation(false)]
pub(super) /*-*/fn from_str_radix(s: &[u8], radix: u32) -> /*+*/(r: /*-*/Result<BigUint, ParseBigIntError>/*+*/)/*-*/
//+{
    requires !mp() ==> 2 <= radix <= 36
    ensures mp() ==> 2 <= radix <= 36,
        r is Ok <==> body_ok(unsigned_body(s@), radix),
        r is Ok ==> r->Ok_0.wf() && r->Ok_0.v() == text_val(unsigned_body(s@), radix),
        r is Err ==> (r->Err_0.is_empty_kind() <==> unsigned_body(s@).len() == 0),
//+}
{
//+{
    let ghost s0 = s@;
//+}
    __assert(2 <= radix && radix <= 36);
    let mut s = s;
    if let Some(tail) = __strip_prefix_byte(s, b'+') {
        if !__starts_with_byte(tail, b'+') {
            s = tail
        }
    }
//+{
    let ghost t = s@;
    proof { assert(t =~= unsigned_body(s0)); }
//+}

    if s.is_empty() {
        return Err(ParseBigIntError::empty());
    }

    if __starts_with_byte(s, b'_') {
        // Must lead with a real digit!
        return Err(ParseBigIntError::invalid());
    }

    // First normalize all characters to plain digit values
    let mut v = Vec::with_capacity(s.len());
    { let mut i__ = 0; while i__ < s.len()
//+{
        invariant
            i__ <= s@.len(), s@ == t, 2 <= radix <= 36, t == unsigned_body(s0),
            v@ == digs(t, i__ as nat),
            digits_below(v@, radix),
            forall|j: int| 0 <= j < i__ ==> t[j] == 95 || (#[trigger] cval(t[j]) as u32) < radix,
            i__ > 0 ==> v@.len() > 0,
            t.len() > 0 && t[0] != 95,
        decreases s@.len() - i__
//+}
    { let b = s[i__]; i__ += 1;
        let d = match b {
            b'0'..=b'9' => b - b'0',
            b'a'..=b'z' => b - b'a' + 10,
            b'A'..=b'Z' => b - b'A' + 10,
            b'_' => continue,
            _ => u8::MAX,
        };
//+{
        proof { assert(d == cval(b)); assert(b != 95); }
//+}

        if d < radix as u8 {
            v.push(d);
        } else {
//+{
            proof { assert(!(t[i__ - 1] == 95 || (cval(t[i__ - 1]) as u32) < radix)); }
//+}
            return Err(ParseBigIntError::invalid());
        }
    } }
//+{
    let ghost dg = v@;
    proof { assert(body_ok(t, radix)); assert(dg == digs(t, t.len())); }
//+}

    let res = if radix.is_power_of_two() {
        // Powers of two can use bitwise masks and shifting instead of multiplication
        let bits = ilog2(radix);
//+{
        proof { lemma_pow2_bits(radix, bits); lemma_radix_is_p2(radix, bits); }
//+}
        v.reverse();
//+{
        proof {
            assert(v@ =~= rev8(dg));
            lemma_valb_is_valr(v@, bits as nat, v@.len());
            assert forall|i: int| 0 <= i < v@.len() implies (#[trigger] v@[i] as nat) < p2(bits as nat) by { assert(v@[i] == dg[dg.len() - 1 - i]); }
        }
//+}
        if big_digit::BITS % bits == 0 {
            from_bitwise_digits_le(&v, bits)
        } else {
            from_inexact_bitwise_digits_le(&v, bits)
        }
    } else {
//+{
        proof { lemma_not_pow2_range(radix); lemma_valbe_is_valr(dg, radix as nat); }
//+}
        from_radix_digits_be(&v, radix)
    };
    Ok(res)
}
//@ end

//@ extract src/biguint/convert.rs :: impl FromStr for BigUint :: fn from_str rules=R0,R48 props=C06,C14 label=biguint_from_str
    /*+*/pub(super) /*-*/fn from_str(s: &[u8]) -> /*+*/(r: /*-*/Result<BigUint, ParseBigIntError>/*+*/)/*-*/
//+{
        ensures
            r is Ok <==> body_ok(unsigned_body(s@), 10),
            r is Ok ==> r->Ok_0.wf() && r->Ok_0.v() == text_val(unsigned_body(s@), 10),
            r is Err ==> (r->Err_0.is_empty_kind() <==> unsigned_body(s@).len() == 0),
//+}
    {
        BigUint::from_str_radix(s, 10)
    }
//@ end
}

//@ extract src/biguint/convert.rs :: fn from_radix_le rules=R0,R11,R12d,R30e props=C06,C14
pub(super) fn from_radix_le(buf: &[u8], radix: u32) -> /*+*/(r: /*-*/Option<BigUint>/*+*/)/*-*/
//+{
    requires !mp() ==> 2 <= radix <= 256
    ensures mp() ==> 2 <= radix <= 256,
        r is None <==> has_bad_digit(buf@, radix),
        r is Some ==> r.unwrap().wf() && r.unwrap().v() == valr(buf@, radix as nat, buf@.len()),
//+}
{
    __assert(2 <= radix && radix <= 256);

    if buf.is_empty() {
        return Some(BigUint::ZERO);
    }

    if radix != 256 && __any_ge(buf, radix as u8) {
//+{
        proof { lemma_digits_bad(buf@, radix); }
//+}
        return None;
    }
//+{
    proof { lemma_digits_ok(buf@, radix); }
//+}

    let res = if radix.is_power_of_two() {
        // Powers of two can use bitwise masks and shifting instead of multiplication
        let bits = ilog2(radix);
//+{
        proof {
            lemma_pow2_bits(radix, bits); lemma_radix_is_p2(radix, bits);
            lemma_valb_is_valr(buf@, bits as nat, buf@.len());
        }
//+}
        if big_digit::BITS % bits == 0 {
            from_bitwise_digits_le(buf, bits)
        } else {
            from_inexact_bitwise_digits_le(buf, bits)
        }
    } else {
        let mut v = buf.to_vec();
//+{
        assert(v@ == buf@);
//+}
        v.reverse();
//+{
        proof {
            assert(v@ =~= rev8(buf@));
            lemma_not_pow2_range(radix);
            lemma_valbe_is_valr(v@, radix as nat);
            lemma_rev_rev(buf@);
            assert forall|i: int| 0 <= i < v@.len() implies (#[trigger] v@[i] as u32) < radix by { assert(v@[i] == buf@[buf@.len() - 1 - i]); }
        }
//+}
        from_radix_digits_be(&v, radix)
    };

    Some(res)
}
//@ end

pub open spec fn is_ascii_digit_lc(b: u8) -> bool { (48 <= b <= 57) || (97 <= b <= 122) }
/// digit value of a lower-case ASCII digit character
pub open spec fn dec(b: u8) -> u8 { if b <= 57 { (b - 48) as u8 } else { (b - 87) as u8 } }
pub open spec fn dec_seq(s: Seq<u8>) -> Seq<u8> { Seq::new(s.len(), |i: int| dec(s[i])) }
/// t is the canonical text of v in the given radix: lower-case digits below the radix, most significant first,
/// denoting v, without leading zeros ("0" for zero)
pub open spec fn printed(t: Seq<u8>, radix: u32, v: nat) -> bool {
    &&& t.len() >= 1
    &&& forall|i: int| 0 <= i < t.len() ==> is_ascii_digit_lc(#[trigger] t[i]) && (dec(t[i]) as u32) < radix
    &&& valr(rev8(dec_seq(t)), radix as nat, t.len()) == v
    &&& (v == 0 ==> t =~= seq![48u8])
    &&& (v != 0 ==> t[0] != 48)
}
/// the formatter log grew by exactly one pad_integral call carrying the flag, the prefix and the canonical text of v
/// in the radix (ASCII upper-cased when `upper`)
pub open spec fn pad_logged(l0: Seq<PadCall>, l1: Seq<PadCall>, nonneg: bool, prefix: Seq<char>, radix: u32, v: nat, upper: bool) -> bool {
    let c = l1.last();
    &&& l1.len() == l0.len() + 1 && l1 == l0.push(c)
    &&& c.nonneg == nonneg
    &&& c.prefix =~= prefix
    &&& exists|t: Seq<u8>| #[trigger] printed(t, radix, v) && c.text =~= (if upper { ascii_chars(t).map_values(|ch: char| upc(ch)) } else { ascii_chars(t) })
}
/// the emitted text parses back to the value (both by the contracts of the emitter and of the parser)
pub proof fn lemma_print_parse(t: Seq<u8>, radix: u32, v: nat)
    requires printed(t, radix, v), 2 <= radix <= 36
    ensures body_ok(unsigned_body(t), radix), text_val(unsigned_body(t), radix) == v
{
    assert(is_ascii_digit_lc(t[0]));
    assert(unsigned_body(t) == t);
    lemma_digs_plain(t, t.len());
    assert(dec_seq(t).subrange(0, t.len() as int) =~= dec_seq(t));
    assert(digs(t, t.len()) == dec_seq(t));
    assert forall|i: int| 0 <= i < t.len() implies t[i] == 95 || (#[trigger] cval(t[i]) as u32) < radix by {
        assert(is_ascii_digit_lc(t[i]));
    }
}
/// without underscores the parser's digit list is the decoded text
pub proof fn lemma_digs_plain(t: Seq<u8>, n: nat)
    requires n <= t.len(), forall|i: int| 0 <= i < t.len() ==> is_ascii_digit_lc(#[trigger] t[i])
    ensures digs(t, n) =~= dec_seq(t).subrange(0, n as int)
    decreases n
{
    if n > 0 {
        lemma_digs_plain(t, (n - 1) as nat);
        assert(is_ascii_digit_lc(t[n - 1]));
    }
}
pub proof fn lemma_valr_ext(s: Seq<u8>, t: Seq<u8>, radix: nat, k: nat)
    requires forall|i: int| 0 <= i < k ==> s[i] == t[i]
    ensures valr(s, radix, k) == valr(t, radix, k)
    decreases k
{
    if k > 0 { lemma_valr_ext(s, t, radix, (k - 1) as nat); }
}

//@ extract src/biguint/convert.rs :: fn to_str_radix_reversed rules=R0,R10v,R11,R14 props=C06,C14,C15
pub(crate) fn to_str_radix_reversed(u: &BigUint, radix: u32) -> /*+*/(r: /*-*/Vec<u8>/*+*/)/*-*/
//+{
    requires u.wf(), !mp() ==> 2 <= radix <= 36
    ensures mp() ==> 2 <= radix <= 36, r@.len() >= 1, forall|i: int| 0 <= i < r@.len() ==> is_ascii_digit_lc(#[trigger] r@[i]),
        u.v() == 0 ==> r@ =~= seq![48u8],
        valr(dec_seq(r@), radix as nat, r@.len()) == u.v(),
        forall|i: int| 0 <= i < r@.len() ==> (dec(#[trigger] r@[i]) as u32) < radix,
        u.v() != 0 ==> r@[r@.len() - 1] != 48,
//+}
{
    __assert(2 <= radix && radix <= 36);

    if u.is_zero() {
//+{
        proof {
            assert forall|s: Seq<u8>| s.len() == 1 && s[0] == 48u8 implies valr(#[trigger] dec_seq(s), radix as nat, 1) == 0 by {
                let z = dec_seq(s);
                assert(valr(z, radix as nat, 1) == valr(z, radix as nat, 0) + (z[0] as nat) * (vstd::arithmetic::power::pow(radix as int, 0) as nat));
                assert(0 * (vstd::arithmetic::power::pow(radix as int, 0) as nat) == 0) by (nonlinear_arith);
            }
        }
//+}
        return vec![b'0'];
    }

    let mut res = to_radix_le(u, radix);
//+{
    let ghost n = res@.len();
    let ghost orig = res@;
//+}

    // Now convert everything to ASCII digits.
    { let mut i__ = 0 ; while i__ < res.len()
//+{
        invariant
            res@.len() == n, i__ <= n, 2 <= radix <= 36,
            forall|j: int| 0 <= j < i__ ==> is_ascii_digit_lc(#[trigger] res@[j]),
            forall|j: int| i__ <= j < n ==> (#[trigger] res@[j] as u32) < radix,
            orig.len() == n, forall|j: int| 0 <= j < n ==> (#[trigger] orig[j] as u32) < radix,
            forall|j: int| 0 <= j < i__ ==> dec(#[trigger] res@[j]) == orig[j],
            forall|j: int| i__ <= j < n ==> #[trigger] res@[j] == orig[j],
        decreases n - i__
//+}
    { let r = &mut res.as_mut_slice()[i__] ; i__ += 1 ;
        if *r < 10 {
            *r += b'0';
        } else {
            *r += b'a' - 10;
        }
    } }
//+{
    proof {
        lemma_valr_ext(dec_seq(res@), orig, radix as nat, n);
        // a non-zero top digit maps to a character other than '0'
        if u.v() != 0 { assert(dec(res@[n - 1]) == orig[n - 1]); }
    }
//+}
    res
}
//@ end

} // mod convert
use self::convert::to_str_radix_reversed;
use self::convert::digits_below;
use self::convert::is_ascii_digit_lc;
use self::convert::{dec, dec_seq};

impl BigUint {
//@ extract src/biguint.rs :: impl BigUint :: fn to_str_radix rules=R0,R1u props=C06,C14,C15
    pub fn to_str_radix(&self, radix: u32) -> /*+*/(r: /*-*/String/*+*/)/*-*/
//+{
        requires self.wf(), !mp() ==> 2 <= radix <= 36
        ensures mp() ==> 2 <= radix <= 36, convert::printed(sbytes(r), radix, self.v()), r@ == ascii_chars(sbytes(r))
//+}
    {
        let mut v = to_str_radix_reversed(self, radix);
//+{
        let ghost v0 = v@;
//+}
        v.reverse();
//+{
        proof {
            assert forall|i: int| 0 <= i < v@.len() implies v@[i] < 128 && is_ascii_digit_lc(#[trigger] v@[i]) && (dec(v@[i]) as u32) < radix by {
                assert(v@[i] == v0[v0.len() - 1 - i]);
                assert(is_ascii_digit_lc(v0[v0.len() - 1 - i]));
            }
            assert(rev8(dec_seq(v@)) =~= dec_seq(v0));
            if self.v() == 0 { assert(v@ =~= seq![48u8]); }
        }
//+}
        __from_utf8_unchecked(v)
    }
//@ end

    // contract-only re-homing of the fmt trait impls (Display, LowerHex, UpperHex, Binary, Octal, Debug) as inherent methods
//@ extract src/biguint.rs :: impl fmt::Display for BigUint :: fn fmt rules=R0,R49 rename=fmt_display props=C06 label=biguint_fmt_display
    fn fmt_display(&self, f: &mut core::fmt::Formatter<'_>) -> /*+*/(r: /*-*/core::fmt::Result/*+*/)/*-*/
//+{
        requires self.wf()
        ensures convert::pad_logged(flog(old(f)), flog(final(f)), true, Seq::<char>::empty(), 10, self.v(), false)
//+}
    {
//+{
        proof { reveal_strlit("");  }
//+}
        f.pad_integral(true, "", &self.to_str_radix(10))
    }
//@ end

//@ extract src/biguint.rs :: impl fmt::LowerHex for BigUint :: fn fmt rules=R0,R49 rename=fmt_lower_hex props=C06 label=biguint_fmt_lower_hex
    fn fmt_lower_hex(&self, f: &mut core::fmt::Formatter<'_>) -> /*+*/(r: /*-*/core::fmt::Result/*+*/)/*-*/
//+{
        requires self.wf()
        ensures convert::pad_logged(flog(old(f)), flog(final(f)), true, seq!['0', 'x'], 16, self.v(), false)
//+}
    {
//+{
        proof { reveal_strlit("0x");  }
//+}
        f.pad_integral(true, "0x", &self.to_str_radix(16))
    }
//@ end

//@ extract src/biguint.rs :: impl fmt::UpperHex for BigUint :: fn fmt rules=R0,R49 rename=fmt_upper_hex props=C06 label=biguint_fmt_upper_hex
    fn fmt_upper_hex(&self, f: &mut core::fmt::Formatter<'_>) -> /*+*/(r: /*-*/core::fmt::Result/*+*/)/*-*/
//+{
        requires self.wf()
        ensures convert::pad_logged(flog(old(f)), flog(final(f)), true, seq!['0', 'x'], 16, self.v(), true)
//+}
    {
//+{
        proof { reveal_strlit("0x");  }
//+}
        let mut s = self.to_str_radix(16);
//+{
        let ghost t0 = sbytes(s);
//+}
        __make_ascii_uppercase(&mut s);
        f.pad_integral(true, "0x", &s)
    }
//@ end

//@ extract src/biguint.rs :: impl fmt::Binary for BigUint :: fn fmt rules=R0,R49 rename=fmt_binary props=C06 label=biguint_fmt_binary
    fn fmt_binary(&self, f: &mut core::fmt::Formatter<'_>) -> /*+*/(r: /*-*/core::fmt::Result/*+*/)/*-*/
//+{
        requires self.wf()
        ensures convert::pad_logged(flog(old(f)), flog(final(f)), true, seq!['0', 'b'], 2, self.v(), false)
//+}
    {
//+{
        proof { reveal_strlit("0b");  }
//+}
        f.pad_integral(true, "0b", &self.to_str_radix(2))
    }
//@ end

//@ extract src/biguint.rs :: impl fmt::Octal for BigUint :: fn fmt rules=R0,R49 rename=fmt_octal props=C06 label=biguint_fmt_octal
    fn fmt_octal(&self, f: &mut core::fmt::Formatter<'_>) -> /*+*/(r: /*-*/core::fmt::Result/*+*/)/*-*/
//+{
        requires self.wf()
        ensures convert::pad_logged(flog(old(f)), flog(final(f)), true, seq!['0', 'o'], 8, self.v(), false)
//+}
    {
//+{
        proof { reveal_strlit("0o");  }
//+}
        f.pad_integral(true, "0o", &self.to_str_radix(8))
    }
//@ end

//@ extract src/biguint.rs :: impl fmt::Debug for BigUint :: fn fmt rules=R0,R49 rename=fmt_debug props=C06 label=biguint_fmt_debug
    fn fmt_debug(&self, f: &mut core::fmt::Formatter<'_>) -> /*+*/(r: /*-*/core::fmt::Result/*+*/)/*-*/
//+{
        requires self.wf()
        ensures convert::pad_logged(flog(old(f)), flog(final(f)), true, Seq::<char>::empty(), 10, self.v(), false)
//+}
    {
        self.fmt_display(f)
    }
//@ end

//@ extract src/biguint.rs :: impl BigUint :: fn parse_bytes rules=R0,R48 props=C06,C14 label=biguint_parse_bytes
    pub fn parse_bytes(buf: &[u8], radix: u32) -> /*+*/(r: /*-*/Option<BigUint>/*+*/)/*-*/
//+{
        requires !mp() ==> 2 <= radix <= 36
        ensures mp() ==> 2 <= radix <= 36 || !is_utf8(buf@),
            r is Some <==> is_utf8(buf@) && convert::body_ok(convert::unsigned_body(buf@), radix),
            r is Some ==> r.unwrap().wf() && r.unwrap().v() == convert::text_val(convert::unsigned_body(buf@), radix),
//+}
    {
        let s = __from_utf8_ok(buf)?;
        BigUint::from_str_radix(s, radix).ok()
    }
//@ end

//@ extract src/biguint.rs :: impl BigUint :: fn from_radix_be props=C06,C14 label=pub_from_radix_be
    pub fn from_radix_be(buf: &[u8], radix: u32) -> /*+*/(r: /*-*/Option<BigUint>/*+*/)/*-*/
//+{
        requires !mp() ==> 2 <= radix <= 256
        ensures mp() ==> 2 <= radix <= 256,
            r is None <==> convert::has_bad_digit(buf@, radix),
            r is Some ==> r.unwrap().wf() && r.unwrap().v() == valr(rev8(buf@), radix as nat, buf@.len()),
//+}
    {
        convert::from_radix_be(buf, radix)
    }
//@ end

//@ extract src/biguint.rs :: impl BigUint :: fn from_radix_le props=C06,C14 label=pub_from_radix_le
    pub fn from_radix_le(buf: &[u8], radix: u32) -> /*+*/(r: /*-*/Option<BigUint>/*+*/)/*-*/
//+{
        requires !mp() ==> 2 <= radix <= 256
        ensures mp() ==> 2 <= radix <= 256,
            r is None <==> convert::has_bad_digit(buf@, radix),
            r is Some ==> r.unwrap().wf() && r.unwrap().v() == valr(buf@, radix as nat, buf@.len()),
//+}
    {
        convert::from_radix_le(buf, radix)
    }
//@ end

//@ extract src/biguint.rs :: impl BigUint :: fn to_radix_le props=C06,C14 label=pub_to_radix_le
    pub fn to_radix_le(&self, radix: u32) -> /*+*/(r: /*-*/Vec<u8>/*+*/)/*-*/
//+{
        requires self.wf(), !mp() ==> 2 <= radix <= 256
        ensures mp() ==> 2 <= radix <= 256, r@.len() >= 1, digits_below(r@, radix),
            valr(r@, radix as nat, r@.len()) == self.v(), self.v() == 0 ==> r@ =~= seq![0u8], self.v() != 0 ==> r@[r@.len() - 1] != 0
//+}
    {
        convert::to_radix_le(self, radix)
    }
//@ end

//@ extract src/biguint.rs :: impl BigUint :: fn to_radix_be props=C06,C14 label=pub_to_radix_be
    pub fn to_radix_be(&self, radix: u32) -> /*+*/(r: /*-*/Vec<u8>/*+*/)/*-*/
//+{
        requires self.wf(), !mp() ==> 2 <= radix <= 256
        ensures mp() ==> 2 <= radix <= 256, r@.len() >= 1, digits_below(r@, radix),
            valr(rev8(r@), radix as nat, r@.len()) == self.v(), self.v() == 0 ==> r@ =~= seq![0u8], self.v() != 0 ==> r@[0] != 0
//+}
    {
        let mut v = convert::to_radix_le(self, radix);
//+{
        let ghost v0 = v@;
//+}
        v.reverse();
//+{
        proof {
            assert forall|i: int| 0 <= i < v@.len() implies (#[trigger] v@[i] as u32) < radix by {
                assert(v@[i] == v0[v0.len() - 1 - i]);
            }
            assert(rev8(v@) =~= v0);
        }
//+}
        v
    }
//@ end
}

//@ extract src/bigint.rs :: struct BigInt
pub struct BigInt {
    sign: Sign,
    data: BigUint,
}
//@ end
//@ include prelude/bigint_view.rs
/// canonical text of a signed value: '-' and the magnitude's text for negatives, the magnitude's text otherwise
pub open spec fn iprinted(t: Seq<u8>, radix: u32, x: int) -> bool {
    if x < 0 { t.len() >= 1 && t[0] == 45 && convert::printed(t.subrange(1, t.len() as int), radix, (-x) as nat) } else { convert::printed(t, radix, x as nat) }
}
/// the emitted signed text parses back to the value
pub proof fn lemma_iprint_parse(t: Seq<u8>, radix: u32, x: int)
    requires iprinted(t, radix, x), 2 <= radix <= 36
    ensures convert::body_ok(signed_body(t), radix), sgn(signed_sign(t)) * (convert::text_val(signed_body(t), radix) as int) == x
{
    if x < 0 {
        let m = t.subrange(1, t.len() as int);
        assert(convert::is_ascii_digit_lc(m[0]));
        assert(t[1] == m[0]);
        convert::lemma_print_parse(m, radix, (-x) as nat);
        lemma_sgn_mul(Sign::Minus, (-x) as nat);
    } else {
        assert(convert::is_ascii_digit_lc(t[0]));
        convert::lemma_print_parse(t, radix, x as nat);
        lemma_sgn_mul(Sign::Plus, x as nat);
    }
}
/// sign announced by an optional leading '-'
pub open spec fn signed_sign(s: Seq<u8>) -> Sign { if s.len() > 0 && s[0] == 45 { Sign::Minus } else { Sign::Plus } }
/// the unsigned text of a signed literal: after '-' (unless a '+' follows: then nothing is stripped and the '-' is an invalid digit), then after one optional '+'
pub open spec fn signed_body(s: Seq<u8>) -> Seq<u8> {
    convert::unsigned_body(if s.len() > 0 && s[0] == 45 && !(s.len() > 1 && s[1] == 43) { s.subrange(1, s.len() as int) } else { s })
}
impl BigInt {
//@ stub i_core/from_biguint
//@ stub i_core/is_negative

    // contract-only re-homing of the fmt trait impls (Display, Binary, Octal, LowerHex, UpperHex, Debug) as inherent methods
//@ extract src/bigint.rs :: impl fmt::Display for BigInt :: fn fmt rules=R0,R49 rename=fmt_display props=C06 label=bigint_fmt_display
    fn fmt_display(&self, f: &mut core::fmt::Formatter<'_>) -> /*+*/(r: /*-*/core::fmt::Result/*+*/)/*-*/
//+{
        requires self.wfi()
        ensures convert::pad_logged(flog(old(f)), flog(final(f)), self.iv() >= 0, Seq::<char>::empty(), 10, self.mag().v(), false)
//+}
    {
//+{
        proof { reveal_strlit(""); lemma_sgn_mul(self.sign, self.data.v()); }
//+}
        f.pad_integral(!self.is_negative(), "", &self.data.to_str_radix(10))
    }
//@ end

//@ extract src/bigint.rs :: impl fmt::LowerHex for BigInt :: fn fmt rules=R0,R49 rename=fmt_lower_hex props=C06 label=bigint_fmt_lower_hex
    fn fmt_lower_hex(&self, f: &mut core::fmt::Formatter<'_>) -> /*+*/(r: /*-*/core::fmt::Result/*+*/)/*-*/
//+{
        requires self.wfi()
        ensures convert::pad_logged(flog(old(f)), flog(final(f)), self.iv() >= 0, seq!['0', 'x'], 16, self.mag().v(), false)
//+}
    {
//+{
        proof { reveal_strlit("0x"); lemma_sgn_mul(self.sign, self.data.v()); }
//+}
        f.pad_integral(!self.is_negative(), "0x", &self.data.to_str_radix(16))
    }
//@ end

//@ extract src/bigint.rs :: impl fmt::UpperHex for BigInt :: fn fmt rules=R0,R49 rename=fmt_upper_hex props=C06 label=bigint_fmt_upper_hex
    fn fmt_upper_hex(&self, f: &mut core::fmt::Formatter<'_>) -> /*+*/(r: /*-*/core::fmt::Result/*+*/)/*-*/
//+{
        requires self.wfi()
        ensures convert::pad_logged(flog(old(f)), flog(final(f)), self.iv() >= 0, seq!['0', 'x'], 16, self.mag().v(), true)
//+}
    {
//+{
        proof { reveal_strlit("0x"); lemma_sgn_mul(self.sign, self.data.v()); }
//+}
        let mut s = self.data.to_str_radix(16);
//+{
        let ghost t0 = sbytes(s);
//+}
        __make_ascii_uppercase(&mut s);
        f.pad_integral(!self.is_negative(), "0x", &s)
    }
//@ end

//@ extract src/bigint.rs :: impl fmt::Binary for BigInt :: fn fmt rules=R0,R49 rename=fmt_binary props=C06 label=bigint_fmt_binary
    fn fmt_binary(&self, f: &mut core::fmt::Formatter<'_>) -> /*+*/(r: /*-*/core::fmt::Result/*+*/)/*-*/
//+{
        requires self.wfi()
        ensures convert::pad_logged(flog(old(f)), flog(final(f)), self.iv() >= 0, seq!['0', 'b'], 2, self.mag().v(), false)
//+}
    {
//+{
        proof { reveal_strlit("0b"); lemma_sgn_mul(self.sign, self.data.v()); }
//+}
        f.pad_integral(!self.is_negative(), "0b", &self.data.to_str_radix(2))
    }
//@ end

//@ extract src/bigint.rs :: impl fmt::Octal for BigInt :: fn fmt rules=R0,R49 rename=fmt_octal props=C06 label=bigint_fmt_octal
    fn fmt_octal(&self, f: &mut core::fmt::Formatter<'_>) -> /*+*/(r: /*-*/core::fmt::Result/*+*/)/*-*/
//+{
        requires self.wfi()
        ensures convert::pad_logged(flog(old(f)), flog(final(f)), self.iv() >= 0, seq!['0', 'o'], 8, self.mag().v(), false)
//+}
    {
//+{
        proof { reveal_strlit("0o"); lemma_sgn_mul(self.sign, self.data.v()); }
//+}
        f.pad_integral(!self.is_negative(), "0o", &self.data.to_str_radix(8))
    }
//@ end

//@ extract src/bigint.rs :: impl fmt::Debug for BigInt :: fn fmt rules=R0,R49 rename=fmt_debug props=C06 label=bigint_fmt_debug
    fn fmt_debug(&self, f: &mut core::fmt::Formatter<'_>) -> /*+*/(r: /*-*/core::fmt::Result/*+*/)/*-*/
//+{
        requires self.wfi()
        ensures convert::pad_logged(flog(old(f)), flog(final(f)), self.iv() >= 0, Seq::<char>::empty(), 10, self.mag().v(), false)
//+}
    {
        self.fmt_display(f)
    }
//@ end

    // contract-only re-homing of `impl Num for BigInt` / `impl FromStr for BigInt` (external traits)
//@ extract src/bigint/convert.rs :: impl Num for BigInt :: fn from_str_radix rules=R0,R48 props=C06,C14 label=bigint_from_str_radix
    fn from_str_radix(mut s: &[u8], radix: u32) -> /*+*/(r: /*-*/Result<BigInt, ParseBigIntError>/*+*/)/*-*/
//+{
        requires !mp() ==> 2 <= radix <= 36
        ensures mp() ==> 2 <= radix <= 36,
            r is Ok <==> convert::body_ok(signed_body(s@), radix),
            r is Ok ==> r->Ok_0.wfi() && r->Ok_0.iv() == sgn(signed_sign(s@)) * (convert::text_val(signed_body(s@), radix) as int),
            r is Err ==> (r->Err_0.is_empty_kind() <==> signed_body(s@).len() == 0),
//+}
    {
        let sign = if let Some(tail) = __strip_prefix_byte(s, b'-') {
            if !__starts_with_byte(tail, b'+') {
                s = tail
            }
            Minus
        } else {
            Plus
        };
        let bu = BigUint::from_str_radix(s, radix)?;
        Ok(BigInt::from_biguint(sign, bu))
    }
//@ end

//@ extract src/bigint/convert.rs :: impl FromStr for BigInt :: fn from_str rules=R0,R48 props=C06,C14 label=bigint_from_str
    fn from_str(s: &[u8]) -> /*+*/(r: /*-*/Result<BigInt, ParseBigIntError>/*+*/)/*-*/
//+{
        ensures
            r is Ok <==> convert::body_ok(signed_body(s@), 10),
            r is Ok ==> r->Ok_0.wfi() && r->Ok_0.iv() == sgn(signed_sign(s@)) * (convert::text_val(signed_body(s@), 10) as int),
            r is Err ==> (r->Err_0.is_empty_kind() <==> signed_body(s@).len() == 0),
//+}
    {
        BigInt::from_str_radix(s, 10)
    }
//@ end

//@ extract src/bigint.rs :: impl BigInt :: fn parse_bytes rules=R0,R48 props=C06,C14 label=bigint_parse_bytes
    pub fn parse_bytes(buf: &[u8], radix: u32) -> /*+*/(r: /*-*/Option<BigInt>/*+*/)/*-*/
//+{
        requires !mp() ==> 2 <= radix <= 36
        ensures mp() ==> 2 <= radix <= 36 || !is_utf8(buf@),
            r is Some <==> is_utf8(buf@) && convert::body_ok(signed_body(buf@), radix),
            r is Some ==> r.unwrap().wfi() && r.unwrap().iv() == sgn(signed_sign(buf@)) * (convert::text_val(signed_body(buf@), radix) as int),
//+}
    {
        let s = __from_utf8_ok(buf)?;
        BigInt::from_str_radix(s, radix).ok()
    }
//@ end

//@ extract src/bigint.rs :: impl BigInt :: fn from_radix_be props=C06,C14 label=bigint_from_radix_be
    pub fn from_radix_be(sign: Sign, buf: &[u8], radix: u32) -> /*+*/(r: /*-*/Option<BigInt>/*+*/)/*-*/
//+{
        requires !mp() ==> 2 <= radix <= 256
        ensures mp() ==> 2 <= radix <= 256,
            r is None <==> convert::has_bad_digit(buf@, radix),
            r is Some ==> r.unwrap().wfi() && r.unwrap().iv() == sgn(sign) * (valr(rev8(buf@), radix as nat, buf@.len()) as int),
//+}
    {
        let u = BigUint::from_radix_be(buf, radix)?;
        Some(BigInt::from_biguint(sign, u))
    }
//@ end

//@ extract src/bigint.rs :: impl BigInt :: fn from_radix_le props=C06,C14 label=bigint_from_radix_le
    pub fn from_radix_le(sign: Sign, buf: &[u8], radix: u32) -> /*+*/(r: /*-*/Option<BigInt>/*+*/)/*-*/
//+{
        requires !mp() ==> 2 <= radix <= 256
        ensures mp() ==> 2 <= radix <= 256,
            r is None <==> convert::has_bad_digit(buf@, radix),
            r is Some ==> r.unwrap().wfi() && r.unwrap().iv() == sgn(sign) * (valr(buf@, radix as nat, buf@.len()) as int),
//+}
    {
        let u = BigUint::from_radix_le(buf, radix)?;
        Some(BigInt::from_biguint(sign, u))
    }
//@ end

//@ extract src/bigint.rs :: impl BigInt :: fn to_radix_be props=C06,C14 label=bigint_to_radix_be
    pub fn to_radix_be(&self, radix: u32) -> /*+*/(r: /*-*/(Sign, Vec<u8>)/*+*/)/*-*/
//+{
        requires self.wfi(), !mp() ==> 2 <= radix <= 256
        ensures mp() ==> 2 <= radix <= 256, r.0 == self.sg(), r.1@.len() >= 1, convert::digits_below(r.1@, radix),
            valr(rev8(r.1@), radix as nat, r.1@.len()) == self.mag().v(), self.mag().v() == 0 ==> r.1@ =~= seq![0u8], self.mag().v() != 0 ==> r.1@[0] != 0
//+}
    {
        (self.sign, self.data.to_radix_be(radix))
    }
//@ end

//@ extract src/bigint.rs :: impl BigInt :: fn to_radix_le props=C06,C14 label=bigint_to_radix_le
    pub fn to_radix_le(&self, radix: u32) -> /*+*/(r: /*-*/(Sign, Vec<u8>)/*+*/)/*-*/
//+{
        requires self.wfi(), !mp() ==> 2 <= radix <= 256
        ensures mp() ==> 2 <= radix <= 256, r.0 == self.sg(), r.1@.len() >= 1, convert::digits_below(r.1@, radix),
            valr(r.1@, radix as nat, r.1@.len()) == self.mag().v(), self.mag().v() == 0 ==> r.1@ =~= seq![0u8], self.mag().v() != 0 ==> r.1@[r.1@.len() - 1] != 0
//+}
    {
        (self.sign, self.data.to_radix_le(radix))
    }
//@ end

//@ extract src/bigint.rs :: impl BigInt :: fn to_str_radix rules=R0,R1u props=C06,C14,C15 label=bigint_to_str_radix
    pub fn to_str_radix(&self, radix: u32) -> /*+*/(r: /*-*/String/*+*/)/*-*/
//+{
        requires self.wfi(), !mp() ==> 2 <= radix <= 36
        ensures mp() ==> 2 <= radix <= 36, iprinted(sbytes(r), radix, self.iv()), r@ == ascii_chars(sbytes(r))
//+}
    {
//+{
        proof { lemma_sgn_mul(self.sign, self.data.v()); }
//+}
        let mut v = to_str_radix_reversed(&self.data, radix);
//+{
        let ghost m0 = v@;
//+}

        if self.is_negative() {
            v.push(b'-');
        }
//+{
        let ghost v0 = v@;
//+}

        v.reverse();
//+{
        proof {
            assert forall|i: int| 0 <= i < v@.len() implies v@[i] < 128 by {
                assert(v@[i] == v0[v0.len() - 1 - i]);
                if v0.len() - 1 - i < v0.len() - 1 || !(self.sign == Minus) { assert(convert::is_ascii_digit_lc(v0[v0.len() - 1 - i])); }
            }
            // the magnitude's text is the reversed digit list
            let t = rev8(m0);
            assert forall|i: int| 0 <= i < t.len() implies convert::is_ascii_digit_lc(#[trigger] t[i]) && (dec(t[i]) as u32) < radix by {
                assert(t[i] == m0[m0.len() - 1 - i]);
                assert(convert::is_ascii_digit_lc(m0[m0.len() - 1 - i]));
            }
            assert(rev8(dec_seq(t)) =~= dec_seq(m0));
            if self.data.v() == 0 { assert(t =~= seq![48u8]); }
            assert(convert::printed(t, radix, self.data.v()));
            if self.sign == Minus {
                assert(v@ =~= seq![45u8] + t);
                assert(v@.subrange(1, v@.len() as int) =~= t);
                assert(self.iv() < 0 && (-self.iv()) as nat == self.data.v());
            } else {
                assert(v@ =~= t);
                assert(self.iv() >= 0 && self.iv() as nat == self.data.v());
            }
        }
//+}
        __from_utf8_unchecked(v)
    }
//@ end
}

} // mod u
} // verus!
fn main() {}
