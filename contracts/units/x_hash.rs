//@ unit x_hash : Hash for BigUint and BigInt: the data fed to the hasher is a function of the integer value (src/biguint.rs, src/bigint.rs)
#![feature(allocator_api)]
use vstd::prelude::*;
use vstd::std_specs::iter::IteratorSpec;
use core::hash::Hash;
verus! {
//@ include prelude/core.rs
//@ include prelude/std_specs.rs
//@ extract src/bigint.rs :: enum Sign attrs=1
#[derive(/*+*/Structural, /*-*/PartialEq, PartialOrd, Eq, Ord, Copy, Clone, Debug, Hash)]
pub enum Sign {
    Minus,
    NoSign,
    Plus,
}
//@ end
//@ include prelude/hashmodel.rs
pub mod u {
use super::*;
use Sign::*;

//@ extract src/biguint.rs :: struct BigUint
pub struct BigUint {
    data: Vec<BigDigit>,
}
//@ end
//@ include prelude/biguint_view.rs

/// what hashing a BigUint feeds to the hasher
pub open spec fn ustream(x: BigUint) -> Seq<HashTok> { seq![tok_seq(x.dg())] }

/// equal values (in canonical representation) feed identical data
pub proof fn lemma_uhash_value(a: BigUint, b: BigUint)
    requires a.wf(), b.wf(), a.v() == b.v()
    ensures ustream(a) == ustream(b)
{
    lemma_canonical_unique(a.dg(), b.dg());
}

impl BigUint {
    // contract-only re-homing of `impl hash::Hash for BigUint`
//@ extract src/biguint.rs :: impl hash::Hash for BigUint :: fn hash rules=R0,R14 tysub=hash::Hasher=>core::hash::Hasher props=C04 label=biguint_hash
    fn hash<H: core::hash::Hasher>(&self, state: &mut H)
//+{
        ensures hlog(final(state)) == hlog(old(state)) + ustream(*self)
//+}
    {
        self.data.hash(state);
//+{
        proof { assert(hlog(old(state)).push(tok_seq(self.data@)) =~= hlog(old(state)) + ustream(*self)); }
//+}
    }
//@ end
}

//@ extract src/bigint.rs :: struct BigInt
pub struct BigInt {
    sign: Sign,
    data: BigUint,
}
//@ end
//@ include prelude/bigint_view.rs

/// what hashing a BigInt feeds to the hasher
pub open spec fn istream(x: BigInt) -> Seq<HashTok> {
    if x.sg() == Sign::NoSign { seq![tok_sign(x.sg())] } else { seq![tok_sign(x.sg()), tok_seq(x.mag().dg())] }
}

/// equal values (in canonical representation) feed identical data
pub proof fn lemma_ihash_value(a: BigInt, b: BigInt)
    requires a.wfi(), b.wfi(), a.iv() == b.iv()
    ensures istream(a) == istream(b)
{
    lemma_sgn_mul(a.sign, a.data.v());
    lemma_sgn_mul(b.sign, b.data.v());
    assert(a.sign == b.sign);
    assert(a.data.v() == b.data.v());
    lemma_canonical_unique(a.data.dg(), b.data.dg());
}

impl BigInt {
    // contract-only re-homing of `impl hash::Hash for BigInt`
//@ extract src/bigint.rs :: impl hash::Hash for BigInt :: fn hash rules=R0,R14 tysub=hash::Hasher=>core::hash::Hasher props=C04 label=bigint_hash
    fn hash<H: core::hash::Hasher>(&self, state: &mut H)
//+{
        ensures hlog(final(state)) == hlog(old(state)) + istream(*self)
//+}
    {
        self.sign.hash(state);
        if self.sign != NoSign {
            self.data.hash(state);
        }
//+{
        proof {
            let l0 = hlog(old(state));
            assert(l0.push(tok_sign(self.sign)) =~= l0 + seq![tok_sign(self.sign)]);
            assert(l0.push(tok_sign(self.sign)).push(tok_seq(self.data.data@)) =~= l0 + seq![tok_sign(self.sign), tok_seq(self.data.data@)]);
        }
//+}
    }
//@ end
}

} // mod u
} // verus!
fn main() {}
