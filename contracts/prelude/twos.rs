// Infinite two's-complement view of integers (property C07): bit k of an integer x is floor(x / 2^k) mod 2.
// Magnitude digits s of a negative number -val(s): its two's-complement digit i is ndig(s, i) = !s[i] + carry,
// the carry being 1 exactly while all lower digits are zero (the recurrence computed by negate_carry in src/bigint/bits.rs).
pub open spec fn ibit(x: int, k: nat) -> bool { (x / (vstd::arithmetic::power2::pow2(k) as int)) % 2 == 1 }
pub open spec fn dbit(d: u64, j: nat) -> bool { (d >> (j as u64)) & 1 == 1 }

pub open spec fn ncar(s: Seq<u64>, i: nat) -> nat
    decreases i
{
    if i == 0 { 1 } else if ncar(s, (i - 1) as nat) == 1 && dig(s, i - 1) == 0 { 1 } else { 0 }
}
pub open spec fn ndig(s: Seq<u64>, i: nat) -> u64 { ((((!dig(s, i as int)) as nat) + ncar(s, i)) % B()) as u64 }
pub open spec fn twd(s: Seq<u64>, n: nat) -> Seq<u64> { Seq::new(n, |i: int| ndig(s, i as nat)) }

/// value of the first i digits of s extended by zeros
pub open spec fn dval(s: Seq<u64>, i: nat) -> nat
    decreases i
{
    if i == 0 { 0 } else { dval(s, (i - 1) as nat) + (dig(s, i - 1) as nat) * pw((i - 1) as nat) }
}

pub proof fn lemma_dval(s: Seq<u64>, i: nat)
    ensures i <= s.len() ==> dval(s, i) == valp(s, i), i >= s.len() ==> dval(s, i) == val(s)
    decreases i
{
    if i > 0 {
        lemma_dval(s, (i - 1) as nat);
        if i > s.len() {
            assert((dig(s, i - 1) as nat) * pw((i - 1) as nat) == 0) by (nonlinear_arith) requires dig(s, i - 1) == 0;
        }
    }
}

pub proof fn lemma_ncar_dval(s: Seq<u64>, i: nat)
    ensures ncar(s, i) <= 1, (ncar(s, i) == 1) == (dval(s, i) == 0)
    decreases i
{
    if i > 0 {
        lemma_ncar_dval(s, (i - 1) as nat);
        lemma_pw_pos((i - 1) as nat);
        let d = dig(s, i - 1) as nat;
        let p = pw((i - 1) as nat);
        if d == 0 { assert(d * p == 0) by (nonlinear_arith) requires d == 0; }
        else { assert(d * p > 0) by (nonlinear_arith) requires d > 0, p > 0; }
    }
}

/// one step of the negate-carry recurrence, as computed by `negate_carry`
pub proof fn lemma_ncar_step(s: Seq<u64>, i: nat, a: u64, c: nat)
    requires a == dig(s, i as int), c == ncar(s, i)
    ensures ((((!a) as nat) + c) % B()) as u64 == ndig(s, i), (((!a) as nat) + c) / B() == ncar(s, i + 1),
        ndig(s, i) as nat + B() * ncar(s, i + 1) == B() - 1 - a as nat + c
{
    lemma_ncar_dval(s, i);
    assert(!a == 0xffff_ffff_ffff_ffffu64 - a) by (bit_vector);
    let t = ((!a) as nat) + c;
    if c == 1 && a == 0 {
        assert(t == B());
        assert(t % B() == 0 && t / B() == 1) by (nonlinear_arith) requires t == B(), B() == 0x1_0000_0000_0000_0000nat;
    } else {
        assert(t < B());
        vstd::arithmetic::div_mod::lemma_small_mod(t, B());
        vstd::arithmetic::div_mod::lemma_basic_div(t as int, B() as int);
    }
}

/// the chain computes B^i - (low i digits), the pending carry standing for B^i when they are all zero
pub proof fn lemma_twd_valp(s: Seq<u64>, n: nat, i: nat)
    requires i <= n
    ensures valp(twd(s, n), i) + ncar(s, i) * pw(i) == pw(i) - dval(s, i)
    decreases i
{
    if i == 0 {
        assert(ncar(s, 0) * pw(0) == 1) by (nonlinear_arith) requires ncar(s, 0) == 1, pw(0) == 1;
    } else {
        let j = (i - 1) as nat;
        lemma_twd_valp(s, n, j);
        lemma_ncar_step(s, j, dig(s, j as int), ncar(s, j));
        let t = twd(s, n);
        let d = dig(s, j as int) as nat;
        let c = ncar(s, j);
        let c1 = ncar(s, i);
        let nd = ndig(s, j) as nat;
        let p = pw(j);
        assert(t[j as int] == ndig(s, j));
        assert(pw(i) == B() * p);
        assert(valp(t, j) + nd * p + c1 * (B() * p) == pw(i) - (dval(s, j) + d * p)) by (nonlinear_arith)
            requires valp(t, j) + c * p == p - dval(s, j), nd + B() * c1 == B() - 1 - d + c, pw(i) == B() * p;
    }
}

pub proof fn lemma_twd_val(s: Seq<u64>, n: nat)
    requires n >= s.len()
    ensures val(twd(s, n)) + ncar(s, n) * pw(n) == pw(n) - val(s), val(s) > 0 ==> ncar(s, n) == 0
{
    lemma_twd_valp(s, n, n);
    lemma_dval(s, n);
    lemma_ncar_dval(s, n);
}

/// beyond the magnitude's digits the two's-complement digits of a negative number are all ones
pub proof fn lemma_ndig_high(s: Seq<u64>, i: nat)
    requires i >= s.len(), val(s) > 0
    ensures ndig(s, i) == 0xffff_ffff_ffff_ffffu64
{
    lemma_dval(s, i);
    lemma_ncar_dval(s, i);
    assert(!0u64 == 0xffff_ffff_ffff_ffffu64) by (bit_vector);
    vstd::arithmetic::div_mod::lemma_small_mod(0xffff_ffff_ffff_ffffnat, B());
}

/// bits below 64n depend only on the residue mod B^n
pub proof fn lemma_ibit_window(x: int, n: nat, k: nat)
    requires k < 64 * n
    ensures ibit(x, k) == bitv((x % (pw(n) as int)) as nat, k)
{
    let pn = pw(n) as int;
    let pk = vstd::arithmetic::power2::pow2(k) as int;
    let ph = vstd::arithmetic::power2::pow2((64 * n - k) as nat) as int;
    lemma_pw_p2_(n);
    lemma_pw_pos(n);
    vstd::arithmetic::power2::lemma_pow2_pos(k);
    vstd::arithmetic::power2::lemma_pow2_adds(k, (64 * n - k) as nat);
    vstd::arithmetic::power2::lemma_pow2_unfold((64 * n - k) as nat);
    let ph2 = vstd::arithmetic::power2::pow2((64 * n - k - 1) as nat) as int;
    assert(ph == 2 * ph2);
    let q = x / pn;
    let r = x % pn;
    vstd::arithmetic::div_mod::lemma_fundamental_div_mod(x, pn);
    vstd::arithmetic::div_mod::lemma_mod_bound(x, pn);
    let r1 = r / pk;
    let r0 = r % pk;
    vstd::arithmetic::div_mod::lemma_fundamental_div_mod(r, pk);
    vstd::arithmetic::div_mod::lemma_mod_bound(r, pk);
    assert(x == pk * (ph * q + r1) + r0) by (nonlinear_arith)
        requires x == pn * q + r, r == pk * r1 + r0, pn == pk * ph;
    vstd::arithmetic::div_mod::lemma_fundamental_div_mod_converse(x, pk, ph * q + r1, r0);
    assert(ph * q + r1 == 2 * (ph2 * q) + r1) by (nonlinear_arith) requires ph == 2 * ph2;
    vstd::arithmetic::div_mod::lemma_mod_multiples_vanish(ph2 * q, r1, 2);
}

/// beyond the window every bit is the sign
pub proof fn lemma_ibit_high(x: int, n: nat, k: nat)
    requires -(pw(n) as int) <= x < pw(n) as int, k >= 64 * n
    ensures ibit(x, k) == (x < 0)
{
    let pk = vstd::arithmetic::power2::pow2(k) as int;
    lemma_pw_p2_(n);
    vstd::arithmetic::power2::lemma_pow2_pos(k);
    if k > 64 * n { vstd::arithmetic::power2::lemma_pow2_strictly_increases(64 * n, k); }
    if x >= 0 {
        vstd::arithmetic::div_mod::lemma_basic_div(x, pk);
    } else {
        vstd::arithmetic::div_mod::lemma_fundamental_div_mod_converse(x, pk, -1, x + pk);
        vstd::arithmetic::div_mod::lemma_fundamental_div_mod_converse(-1, 2, -1, 1);
    }
}

/// bit k of a non-negative number, from its digits
pub proof fn lemma_ibit_pos(s: Seq<u64>, k: nat)
    ensures ibit(val(s) as int, k) == dbit(dig(s, (k / 64) as int), k % 64)
{
    let i = k / 64;
    let b = (k % 64) as u64;
    lemma_bit_of_digit(s, i, b);
    assert(64 * i + b as nat == k);
    if i >= s.len() { assert((0u64 >> b) & 1 == 0) by (bit_vector); }
}

/// bit k of a negative number -val(s), from the negate-carry digits of its magnitude
pub proof fn lemma_ibit_neg(s: Seq<u64>, k: nat)
    requires val(s) > 0
    ensures ibit(-(val(s) as int), k) == dbit(ndig(s, k / 64), k % 64)
{
    let i = k / 64;
    let b = (k % 64) as u64;
    let n: nat = if i + 1 > s.len() { i + 1 } else { s.len() };
    let x = -(val(s) as int);
    let t = twd(s, n);
    lemma_twd_val(s, n);
    lemma_valp_bound(s, s.len());
    lemma_pw_mono(s.len(), n);
    lemma_pw_pos(n);
    assert(ncar(s, n) * pw(n) == 0) by (nonlinear_arith) requires ncar(s, n) == 0;
    // x == -1 * B^n + val(t), 0 <= val(t) < B^n
    vstd::arithmetic::div_mod::lemma_fundamental_div_mod_converse(x, pw(n) as int, -1, val(t) as int);
    lemma_ibit_window(x, n, k);
    lemma_bit_of_digit(t, i, b);
    assert(64 * i + b as nat == k);
    assert(t[i as int] == ndig(s, i));
}

/// a negative result assembled from its two's-complement digits w (all ones beyond n): magnitude r = B^n - val(w)
pub proof fn lemma_neg_result(r: Seq<u64>, w: Seq<u64>, n: nat)
    requires w.len() == n, r =~= (if ncar(w, n) == 1 { twd(w, n).push(1u64) } else { twd(w, n) })
    ensures val(r) > 0, val(r) == pw(n) - val(w),
        forall|k: nat| #[trigger] ibit(-(val(r) as int), k) == (if k < 64 * n { dbit(w[(k / 64) as int], k % 64) } else { true })
{
    let t = twd(w, n);
    lemma_twd_val(w, n);
    lemma_valp_bound(w, n);
    lemma_pw_pos(n);
    lemma_ncar_dval(w, n);
    if ncar(w, n) == 1 {
        lemma_val_concat(t, seq![1u64]);
        lemma_val_single(1u64);
        assert(t.push(1u64) =~= t + seq![1u64]);
        assert(ncar(w, n) * pw(n) == pw(n)) by (nonlinear_arith) requires ncar(w, n) == 1;
        assert(pw(n) * 1 == pw(n)) by (nonlinear_arith);
    } else {
        assert(ncar(w, n) * pw(n) == 0) by (nonlinear_arith) requires ncar(w, n) == 0;
    }
    let x = -(val(r) as int);
    assert(x == val(w) as int - pw(n) as int);
    vstd::arithmetic::div_mod::lemma_fundamental_div_mod_converse(x, pw(n) as int, -1, val(w) as int);
    assert forall|k: nat| #[trigger] ibit(x, k) == (if k < 64 * n { dbit(w[(k / 64) as int], k % 64) } else { true }) by {
        if k < 64 * n {
            lemma_ibit_window(x, n, k);
            lemma_bit_of_digit(w, k / 64, (k % 64) as u64);
            assert(64 * (k / 64) + (k % 64) == k);
        } else {
            lemma_ibit_high(x, n, k);
        }
    }
}

/// the two's-complement digit stream of +val(s) (neg == false) or -val(s) (neg == true)
pub open spec fn sdig(neg: bool, s: Seq<u64>, i: nat) -> u64 { if neg { ndig(s, i) } else { dig(s, i as int) } }
pub open spec fn sval(neg: bool, s: Seq<u64>) -> int { if neg { -(val(s) as int) } else { val(s) as int } }
/// op: 0 = and, 1 = or, 2 = xor
pub open spec fn dop(op: int, u: u64, v: u64) -> u64 { if op == 0 { u & v } else if op == 1 { u | v } else { u ^ v } }
pub open spec fn bop(op: int, p: bool, q: bool) -> bool { if op == 0 { p && q } else if op == 1 { p || q } else { p != q } }
/// the window of n result digits
pub open spec fn wdig(op: int, an: bool, a: Seq<u64>, bn: bool, b: Seq<u64>, n: nat) -> Seq<u64> {
    Seq::new(n, |j: int| dop(op, sdig(an, a, j as nat), sdig(bn, b, j as nat)))
}

pub proof fn lemma_dbit_dop(op: int, u: u64, v: u64, j: nat)
    requires j < 64
    ensures dbit(dop(op, u, v), j) == bop(op, dbit(u, j), dbit(v, j))
{
    let jj = j as u64;
    assert(jj < 64 ==> (((u & v) >> jj) & 1 == 1) == (((u >> jj) & 1 == 1) && ((v >> jj) & 1 == 1))) by (bit_vector);
    assert(jj < 64 ==> (((u | v) >> jj) & 1 == 1) == (((u >> jj) & 1 == 1) || ((v >> jj) & 1 == 1))) by (bit_vector);
    assert(jj < 64 ==> (((u ^ v) >> jj) & 1 == 1) == (((u >> jj) & 1 == 1) != ((v >> jj) & 1 == 1))) by (bit_vector);
}

pub proof fn lemma_ibit_s(neg: bool, s: Seq<u64>, k: nat)
    requires neg ==> val(s) > 0
    ensures ibit(sval(neg, s), k) == dbit(sdig(neg, s, k / 64), k % 64)
{
    if neg { lemma_ibit_neg(s, k); } else { lemma_ibit_pos(s, k); }
}

/// beyond its digits the stream of a number is its sign digit
pub proof fn lemma_sdig_high(neg: bool, s: Seq<u64>, i: nat)
    requires i >= s.len(), neg ==> val(s) > 0
    ensures sdig(neg, s, i) == (if neg { 0xffff_ffff_ffff_ffffu64 } else { 0u64 })
{
    if neg { lemma_ndig_high(s, i); }
}

/// a non-negative result given digit-wise: every bit of it is the operation on the operands' bits
pub proof fn lemma_pos_result(op: int, r: Seq<u64>, an: bool, a: Seq<u64>, bn: bool, b: Seq<u64>)
    requires an ==> val(a) > 0, bn ==> val(b) > 0,
        forall|i: nat| dig(r, i as int) == dop(op, #[trigger] sdig(an, a, i), sdig(bn, b, i))
    ensures forall|k: nat| #[trigger] ibit(val(r) as int, k) == bop(op, ibit(sval(an, a), k), ibit(sval(bn, b), k))
{
    assert forall|k: nat| #[trigger] ibit(val(r) as int, k) == bop(op, ibit(sval(an, a), k), ibit(sval(bn, b), k)) by {
        lemma_ibit_pos(r, k);
        lemma_ibit_s(an, a, k);
        lemma_ibit_s(bn, b, k);
        let i = k / 64;
        assert(dig(r, i as int) == dop(op, sdig(an, a, i), sdig(bn, b, i)));
        lemma_dbit_dop(op, sdig(an, a, i), sdig(bn, b, i), k % 64);
    }
}

/// a negative result assembled by re-negating the window w of n result digits, the result stream being all ones beyond
pub proof fn lemma_neg_result_op(op: int, r: Seq<u64>, an: bool, a: Seq<u64>, bn: bool, b: Seq<u64>, n: nat)
    requires an ==> val(a) > 0, bn ==> val(b) > 0,
        r =~= (if ncar(wdig(op, an, a, bn, b, n), n) == 1 { twd(wdig(op, an, a, bn, b, n), n).push(1u64) } else { twd(wdig(op, an, a, bn, b, n), n) }),
        forall|i: nat| i >= n ==> dop(op, #[trigger] sdig(an, a, i), sdig(bn, b, i)) == 0xffff_ffff_ffff_ffffu64
    ensures val(r) > 0,
        forall|k: nat| #[trigger] ibit(-(val(r) as int), k) == bop(op, ibit(sval(an, a), k), ibit(sval(bn, b), k))
{
    let w = wdig(op, an, a, bn, b, n);
    lemma_neg_result(r, w, n);
    assert forall|k: nat| #[trigger] ibit(-(val(r) as int), k) == bop(op, ibit(sval(an, a), k), ibit(sval(bn, b), k)) by {
        lemma_ibit_s(an, a, k);
        lemma_ibit_s(bn, b, k);
        let i = k / 64;
        let j = k % 64;
        lemma_dbit_dop(op, sdig(an, a, i), sdig(bn, b, i), j);
        if k < 64 * n {
            assert(w[i as int] == dop(op, sdig(an, a, i), sdig(bn, b, i)));
        } else {
            assert(dop(op, sdig(an, a, i), sdig(bn, b, i)) == 0xffff_ffff_ffff_ffffu64);
            let jj = j as u64;
            assert(jj < 64 ==> (0xffff_ffff_ffff_ffffu64 >> jj) & 1 == 1) by (bit_vector);
        }
    }
}


pub proof fn lemma_bit_ids(x: u64, y: u64)
    ensures x & 0xffff_ffff_ffff_ffffu64 == x, 0xffff_ffff_ffff_ffffu64 & x == x, x | 0u64 == x, 0u64 | x == x, x ^ 0u64 == x, 0u64 ^ x == x,
        y & 0xffff_ffff_ffff_ffffu64 == y, 0xffff_ffff_ffff_ffffu64 & y == y, y | 0u64 == y, 0u64 | y == y, y ^ 0u64 == y, 0u64 ^ y == y,
        x & 0u64 == 0, 0u64 & x == 0, y & 0u64 == 0, 0u64 & y == 0,
        x | 0xffff_ffff_ffff_ffffu64 == 0xffff_ffff_ffff_ffffu64, 0xffff_ffff_ffff_ffffu64 | x == 0xffff_ffff_ffff_ffffu64,
        y | 0xffff_ffff_ffff_ffffu64 == 0xffff_ffff_ffff_ffffu64, 0xffff_ffff_ffff_ffffu64 | y == 0xffff_ffff_ffff_ffffu64,
        x ^ y == y ^ x, x & y == y & x, x | y == y | x, !0u64 == 0xffff_ffff_ffff_ffffu64,
        0u64 ^ 0xffff_ffff_ffff_ffffu64 == 0xffff_ffff_ffff_ffffu64, 0xffff_ffff_ffff_ffffu64 ^ 0u64 == 0xffff_ffff_ffff_ffffu64,
{
    assert(x & 0xffff_ffff_ffff_ffffu64 == x && 0xffff_ffff_ffff_ffffu64 & x == x && x | 0u64 == x && 0u64 | x == x && x ^ 0u64 == x && 0u64 ^ x == x) by (bit_vector);
    assert(y & 0xffff_ffff_ffff_ffffu64 == y && 0xffff_ffff_ffff_ffffu64 & y == y && y | 0u64 == y && 0u64 | y == y && y ^ 0u64 == y && 0u64 ^ y == y) by (bit_vector);
    assert(x & 0u64 == 0 && 0u64 & x == 0 && y & 0u64 == 0 && 0u64 & y == 0) by (bit_vector);
    assert(x | 0xffff_ffff_ffff_ffffu64 == 0xffff_ffff_ffff_ffffu64 && 0xffff_ffff_ffff_ffffu64 | x == 0xffff_ffff_ffff_ffffu64) by (bit_vector);
    assert(y | 0xffff_ffff_ffff_ffffu64 == 0xffff_ffff_ffff_ffffu64 && 0xffff_ffff_ffff_ffffu64 | y == 0xffff_ffff_ffff_ffffu64) by (bit_vector);
    assert(x ^ y == y ^ x && x & y == y & x && x | y == y | x) by (bit_vector);
    assert(!0u64 == 0xffff_ffff_ffff_ffffu64) by (bit_vector);
    assert(0u64 ^ 0xffff_ffff_ffff_ffffu64 == 0xffff_ffff_ffff_ffffu64 && 0xffff_ffff_ffff_ffffu64 ^ 0u64 == 0xffff_ffff_ffff_ffffu64) by (bit_vector);
}


pub proof fn lemma_ibit_zero(k: nat)
    ensures !ibit(0, k)
{
    vstd::arithmetic::power2::lemma_pow2_pos(k);
    vstd::arithmetic::div_mod::lemma_basic_div(0, vstd::arithmetic::power2::pow2(k) as int);
}

pub proof fn lemma_dval_zero(s: Seq<u64>, n: nat, j: nat)
    requires dval(s, n) == 0, j < n
    ensures dig(s, j as int) == 0
    decreases n
{
    let m = (n - 1) as nat;
    lemma_pw_pos(m);
    let d = dig(s, m as int) as nat;
    if d > 0 { assert(d * pw(m) > 0) by (nonlinear_arith) requires d > 0, pw(m) > 0; }
    if j < m { lemma_dval_zero(s, m, j); }
}

/// OR with a negative operand whose magnitude fits the window is never the all-zero window: no carry survives
pub proof fn lemma_or_ncar(an: bool, a: Seq<u64>, bn: bool, b: Seq<u64>, n: nat)
    requires (an && n >= a.len() && val(a) > 0) || (bn && n >= b.len() && val(b) > 0)
    ensures ncar(wdig(1, an, a, bn, b, n), n) == 0
{
    let w = wdig(1, an, a, bn, b, n);
    lemma_ncar_dval(w, n);
    if ncar(w, n) == 1 {
        let s = if an && n >= a.len() && val(a) > 0 { a } else { b };
        let t = twd(s, n);
        lemma_twd_val(s, n);
        lemma_valp_bound(s, s.len());
        lemma_pw_mono(s.len(), n);
        assert(ncar(s, n) * pw(n) == 0) by (nonlinear_arith) requires ncar(s, n) == 0;
        assert(val(t) > 0);
        assert forall|j: int| 0 <= j < n implies t[j] == 0 by {
            lemma_dval_zero(w, n, j as nat);
            let x = sdig(an, a, j as nat);
            let y = sdig(bn, b, j as nat);
            assert(w[j] == x | y);
            assert((x | y) == 0 ==> x == 0 && y == 0) by (bit_vector);
        }
        lemma_valp_zero_(t, n);
    }
}

pub proof fn lemma_valp_zero_(s: Seq<u64>, i: nat)
    requires i <= s.len(), forall|j: int| 0 <= j < i ==> s[j] == 0
    ensures valp(s, i) == 0
    decreases i
{
    if i > 0 {
        lemma_valp_zero_(s, (i - 1) as nat);
        assert((s[i - 1] as nat) * pw((i - 1) as nat) == 0) by (nonlinear_arith) requires s[i - 1] == 0;
    }
}

pub open spec fn sg(neg: bool) -> u64 { if neg { 0xffff_ffff_ffff_ffffu64 } else { 0u64 } }

/// when the window of n digits is wide enough the result stream beyond it is the constant sign digit of the result
pub open spec fn window_ok(op: int, an: bool, a: Seq<u64>, bn: bool, b: Seq<u64>, n: nat) -> bool {
    (n >= a.len() && n >= b.len())
    || (op == 0 && ((!an && n >= a.len()) || (!bn && n >= b.len())))
    || (op == 1 && ((an && n >= a.len()) || (bn && n >= b.len())))
}

pub proof fn lemma_high(op: int, an: bool, a: Seq<u64>, bn: bool, b: Seq<u64>, n: nat)
    requires 0 <= op <= 2, an ==> val(a) > 0, bn ==> val(b) > 0, window_ok(op, an, a, bn, b, n)
    ensures forall|i: nat| i >= n ==> dop(op, #[trigger] sdig(an, a, i), sdig(bn, b, i)) == sg(bop(op, an, bn))
{
    assert forall|i: nat| i >= n implies dop(op, #[trigger] sdig(an, a, i), sdig(bn, b, i)) == sg(bop(op, an, bn)) by {
        let x = sdig(an, a, i);
        let y = sdig(bn, b, i);
        lemma_bit_ids(x, y);
        if i >= a.len() { lemma_sdig_high(an, a, i); }
        if i >= b.len() { lemma_sdig_high(bn, b, i); }
        assert(0xffff_ffff_ffff_ffffu64 ^ 0xffff_ffff_ffff_ffffu64 == 0 && 0u64 ^ 0u64 == 0 && 0u64 & 0u64 == 0 && 0u64 | 0u64 == 0
            && 0xffff_ffff_ffff_ffffu64 & 0xffff_ffff_ffff_ffffu64 == 0xffff_ffff_ffff_ffffu64
            && 0xffff_ffff_ffff_ffffu64 | 0xffff_ffff_ffff_ffffu64 == 0xffff_ffff_ffff_ffffu64) by (bit_vector);
    }
}

/// all bits of r are op on the bits of x and y
pub open spec fn bits_rel(op: int, r: int, x: int, y: int) -> bool {
    forall|k: nat| #[trigger] ibit(r, k) == bop(op, ibit(x, k), ibit(y, k))
}

/// one sign case of a BigInt bitwise operation: the kernel's digit-exact result denotes the operation on the infinite expansions
pub proof fn lemma_case(op: int, r: Seq<u64>, an: bool, a: Seq<u64>, bn: bool, b: Seq<u64>, n: nat)
    requires 0 <= op <= 2, an ==> val(a) > 0, bn ==> val(b) > 0, window_ok(op, an, a, bn, b, n),
        !bop(op, an, bn) ==> r =~= wdig(op, an, a, bn, b, n),
        bop(op, an, bn) ==> (r =~= (if ncar(wdig(op, an, a, bn, b, n), n) == 1 { twd(wdig(op, an, a, bn, b, n), n).push(1u64) } else { twd(wdig(op, an, a, bn, b, n), n) })
            || (op == 1 && r =~= twd(wdig(op, an, a, bn, b, n), n)))
    ensures bop(op, an, bn) ==> val(r) > 0,
        bits_rel(op, if bop(op, an, bn) { -(val(r) as int) } else { val(r) as int }, sval(an, a), sval(bn, b))
{
    lemma_high(op, an, a, bn, b, n);
    if bop(op, an, bn) {
        if op == 1 { lemma_or_ncar(an, a, bn, b, n); }
        lemma_neg_result_op(op, r, an, a, bn, b, n);
    } else {
        let w = wdig(op, an, a, bn, b, n);
        assert forall|i: nat| dig(r, i as int) == dop(op, #[trigger] sdig(an, a, i), sdig(bn, b, i)) by {
            if i < n { assert(r[i as int] == w[i as int]); }
        }
        lemma_pos_result(op, r, an, a, bn, b);
    }
}

/// bits below t depend only on the residue mod 2^t
pub proof fn lemma_ibit_mod(x: int, t: nat, k: nat)
    requires k < t
    ensures ibit(x, k) == ibit(x % (vstd::arithmetic::power2::pow2(t) as int), k)
{
    let pn = vstd::arithmetic::power2::pow2(t) as int;
    let pk = vstd::arithmetic::power2::pow2(k) as int;
    let ph = vstd::arithmetic::power2::pow2((t - k) as nat) as int;
    vstd::arithmetic::power2::lemma_pow2_pos(t);
    vstd::arithmetic::power2::lemma_pow2_pos(k);
    vstd::arithmetic::power2::lemma_pow2_adds(k, (t - k) as nat);
    vstd::arithmetic::power2::lemma_pow2_unfold((t - k) as nat);
    let ph2 = vstd::arithmetic::power2::pow2((t - k - 1) as nat) as int;
    assert(ph == 2 * ph2);
    let q = x / pn;
    let r = x % pn;
    vstd::arithmetic::div_mod::lemma_fundamental_div_mod(x, pn);
    vstd::arithmetic::div_mod::lemma_mod_bound(x, pn);
    let r1 = r / pk;
    let r0 = r % pk;
    vstd::arithmetic::div_mod::lemma_fundamental_div_mod(r, pk);
    vstd::arithmetic::div_mod::lemma_mod_bound(r, pk);
    assert(x == pk * (ph * q + r1) + r0) by (nonlinear_arith)
        requires x == pn * q + r, r == pk * r1 + r0, pn == pk * ph;
    vstd::arithmetic::div_mod::lemma_fundamental_div_mod_converse(x, pk, ph * q + r1, r0);
    assert(ph * q + r1 == 2 * (ph2 * q) + r1) by (nonlinear_arith) requires ph == 2 * ph2;
    vstd::arithmetic::div_mod::lemma_mod_multiples_vanish(ph2 * q, r1, 2);
}

/// bit t+j of x is bit j of floor(x / 2^t)
pub proof fn lemma_ibit_shift(x: int, t: nat, j: nat)
    ensures ibit(x, t + j) == ibit(x / (vstd::arithmetic::power2::pow2(t) as int), j)
{
    let pt = vstd::arithmetic::power2::pow2(t) as int;
    let pj = vstd::arithmetic::power2::pow2(j) as int;
    vstd::arithmetic::power2::lemma_pow2_pos(t);
    vstd::arithmetic::power2::lemma_pow2_pos(j);
    vstd::arithmetic::power2::lemma_pow2_adds(t, j);
    let q = x / pt;
    let r = x % pt;
    vstd::arithmetic::div_mod::lemma_fundamental_div_mod(x, pt);
    vstd::arithmetic::div_mod::lemma_mod_bound(x, pt);
    let q2 = q / pj;
    let r2 = q % pj;
    vstd::arithmetic::div_mod::lemma_fundamental_div_mod(q, pj);
    vstd::arithmetic::div_mod::lemma_mod_bound(q, pj);
    assert(x == (pt * pj) * q2 + (pt * r2 + r)) by (nonlinear_arith) requires x == pt * q + r, q == pj * q2 + r2;
    assert(0 <= pt * r2 + r < pt * pj) by (nonlinear_arith) requires 0 <= r < pt, 0 <= r2 < pj;
    vstd::arithmetic::div_mod::lemma_fundamental_div_mod_converse(x, pt * pj, q2, pt * r2 + r);
}

/// the bits of -y-1 (that is, !y) are the complements of the bits of y
pub proof fn lemma_compl(y: int, k: nat)
    ensures ibit(-y - 1, k) == !ibit(y, k)
{
    let pk = vstd::arithmetic::power2::pow2(k) as int;
    vstd::arithmetic::power2::lemma_pow2_pos(k);
    let q = y / pk;
    let r = y % pk;
    vstd::arithmetic::div_mod::lemma_fundamental_div_mod(y, pk);
    vstd::arithmetic::div_mod::lemma_mod_bound(y, pk);
    assert(-y - 1 == pk * (-q - 1) + (pk - 1 - r)) by (nonlinear_arith) requires y == pk * q + r;
    vstd::arithmetic::div_mod::lemma_fundamental_div_mod_converse(-y - 1, pk, -q - 1, pk - 1 - r);
    let h = q / 2;
    let b = q % 2;
    vstd::arithmetic::div_mod::lemma_fundamental_div_mod(q, 2);
    vstd::arithmetic::div_mod::lemma_fundamental_div_mod_converse(-q - 1, 2, -h - 1, 1 - b);
}

/// two's complement of a magnitude m with lowest set bit tz:  0 below tz, 1 at tz, complemented above
pub proof fn lemma_neg_bit(m: nat, tz: nat, k: nat)
    requires m > 0, m % vstd::arithmetic::power2::pow2(tz) == 0, bitv(m, tz)
    ensures ibit(-(m as int), k) == (if k < tz { false } else if k == tz { true } else { !bitv(m, k) })
{
    let pt = vstd::arithmetic::power2::pow2(tz) as int;
    vstd::arithmetic::power2::lemma_pow2_pos(tz);
    let x = -(m as int);
    let c = (m as int) / pt;
    vstd::arithmetic::div_mod::lemma_fundamental_div_mod(m as int, pt);
    assert(m as int == pt * c);
    assert(x == pt * (-c) + 0) by (nonlinear_arith) requires m as int == pt * c, x == -(m as int);
    vstd::arithmetic::div_mod::lemma_fundamental_div_mod_converse(x, pt, -c, 0);
    if k < tz {
        lemma_ibit_mod(x, tz, k);
        lemma_ibit_zero(k);
    } else {
        let j = (k - tz) as nat;
        lemma_ibit_shift(x, tz, j);
        lemma_ibit_shift(m as int, tz, j);
        // c is odd (bit tz of m)
        vstd::arithmetic::power2::lemma2_to64();
        assert(c % 2 == 1);
        // -c == -(c - 1) - 1
        lemma_compl(c - 1, j);
        if j == 0 {
            let h = (c - 1) / 2;
            vstd::arithmetic::div_mod::lemma_fundamental_div_mod(c, 2);
            vstd::arithmetic::div_mod::lemma_fundamental_div_mod_converse(c - 1, 2, c / 2, 0);
            assert((c - 1) / 1 == c - 1);
        } else {
            // for j >= 1 the bits of c - 1 and c agree (c odd)
            let pj = vstd::arithmetic::power2::pow2(j) as int;
            vstd::arithmetic::power2::lemma_pow2_pos(j);
            vstd::arithmetic::power2::lemma_pow2_unfold(j);
            let q = c / pj;
            let r = c % pj;
            vstd::arithmetic::div_mod::lemma_fundamental_div_mod(c, pj);
            vstd::arithmetic::div_mod::lemma_mod_bound(c, pj);
            // r is odd, hence r >= 1
            let ph = vstd::arithmetic::power2::pow2((j - 1) as nat) as int;
            assert(pj == 2 * ph);
            assert(c == 2 * (ph * q) + r) by (nonlinear_arith) requires c == pj * q + r, pj == 2 * ph;
            vstd::arithmetic::div_mod::lemma_mod_multiples_vanish(ph * q, r, 2);
            assert(r % 2 == 1);
            vstd::arithmetic::div_mod::lemma_fundamental_div_mod_converse(c - 1, pj, q, r - 1);
        }
    }
}

/// adding or subtracting 2^b complements bit b
pub proof fn lemma_flip_bit(n: int, b: nat)
    ensures ibit(n + vstd::arithmetic::power2::pow2(b) as int, b) == !ibit(n, b), ibit(n - vstd::arithmetic::power2::pow2(b) as int, b) == !ibit(n, b)
{
    let pb = vstd::arithmetic::power2::pow2(b) as int;
    vstd::arithmetic::power2::lemma_pow2_pos(b);
    let q = n / pb;
    let r = n % pb;
    vstd::arithmetic::div_mod::lemma_fundamental_div_mod(n, pb);
    vstd::arithmetic::div_mod::lemma_mod_bound(n, pb);
    assert(n + pb == pb * (q + 1) + r) by (nonlinear_arith) requires n == pb * q + r;
    assert(n - pb == pb * (q - 1) + r) by (nonlinear_arith) requires n == pb * q + r;
    vstd::arithmetic::div_mod::lemma_fundamental_div_mod_converse(n + pb, pb, q + 1, r);
    vstd::arithmetic::div_mod::lemma_fundamental_div_mod_converse(n - pb, pb, q - 1, r);
}

/// adding 2^b to a number whose bit b is clear leaves every other bit unchanged
pub proof fn lemma_add_bit(n: int, b: nat, j: nat)
    requires !ibit(n, b), j != b
    ensures ibit(n + vstd::arithmetic::power2::pow2(b) as int, j) == ibit(n, j)
{
    let pb = vstd::arithmetic::power2::pow2(b) as int;
    let ph = vstd::arithmetic::power2::pow2(b + 1) as int;
    vstd::arithmetic::power2::lemma_pow2_pos(b);
    vstd::arithmetic::power2::lemma_pow2_unfold(b + 1);
    assert(ph == 2 * pb);
    let q = n / pb;
    let r = n % pb;
    vstd::arithmetic::div_mod::lemma_fundamental_div_mod(n, pb);
    vstd::arithmetic::div_mod::lemma_mod_bound(n, pb);
    let h = q / 2;
    vstd::arithmetic::div_mod::lemma_fundamental_div_mod(q, 2);
    assert(q == 2 * h);
    if j < b {
        lemma_ibit_mod(n, b, j);
        lemma_ibit_mod(n + pb, b, j);
        assert(n + pb == pb * (q + 1) + r) by (nonlinear_arith) requires n == pb * q + r;
        vstd::arithmetic::div_mod::lemma_fundamental_div_mod_converse(n + pb, pb, q + 1, r);
    } else {
        let t = (j - b - 1) as nat;
        assert(n == ph * h + r) by (nonlinear_arith) requires n == pb * q + r, q == 2 * h, ph == 2 * pb;
        assert(n + pb == ph * h + (r + pb)) by (nonlinear_arith) requires n == ph * h + r;
        vstd::arithmetic::div_mod::lemma_fundamental_div_mod_converse(n, ph, h, r);
        vstd::arithmetic::div_mod::lemma_fundamental_div_mod_converse(n + pb, ph, h, r + pb);
        lemma_ibit_shift(n, b + 1, t);
        lemma_ibit_shift(n + pb, b + 1, t);
        assert(b + 1 + t == j);
    }
}

/// the three outcomes of "make bit b of n equal to value", read bit by bit
pub open spec fn set_bit_target(n: int, b: nat, value: bool) -> int {
    if value == ibit(n, b) { n } else if value { n + vstd::arithmetic::power2::pow2(b) as int } else { n - vstd::arithmetic::power2::pow2(b) as int }
}
pub proof fn lemma_set_bit_bits(n: int, b: nat, value: bool)
    ensures forall|k: nat| #[trigger] ibit(set_bit_target(n, b, value), k) == (if k == b { value } else { ibit(n, k) })
{
    let pb = vstd::arithmetic::power2::pow2(b) as int;
    let r = set_bit_target(n, b, value);
    assert forall|k: nat| #[trigger] ibit(r, k) == (if k == b { value } else { ibit(n, k) }) by {
        lemma_flip_bit(n, b);
        if value != ibit(n, b) {
            if value {
                if k != b { lemma_add_bit(n, b, k); }
            } else {
                // n == (n - 2^b) + 2^b with bit b of n - 2^b clear
                if k != b { lemma_add_bit(n - pb, b, k); assert(n - pb + pb == n); }
            }
        }
    }
}

/// (1 << b) as a digit at position i is 2^(64 i + b)
pub proof fn lemma_mask_val(i: nat, b: u64)
    requires b < 64
    ensures ((1u64 << b) as nat) * pw(i) == vstd::arithmetic::power2::pow2(64 * i + b as nat), (1u64 << b) as nat == vstd::arithmetic::power2::pow2(b as nat)
{
    vstd::arithmetic::power2::lemma2_to64();
    vstd::arithmetic::power2::lemma_pow2_strictly_increases(b as nat, 64);
    assert(1 * vstd::arithmetic::power2::pow2(b as nat) <= u64::MAX);
    vstd::bits::lemma_u64_shl_is_mul(1u64, b);
    lemma_pw_p2_(i);
    vstd::arithmetic::power2::lemma_pow2_adds(64 * i, b as nat);
    assert(vstd::arithmetic::power2::pow2(b as nat) * pw(i) == pw(i) * vstd::arithmetic::power2::pow2(b as nat)) by (nonlinear_arith);
}
