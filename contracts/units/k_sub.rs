//@ unit k_sub : digit-slice subtraction kernels (src/biguint/subtraction.rs)
#![feature(allocator_api)]
use vstd::prelude::*;
use vstd::std_specs::iter::IteratorSpec;
verus! {
//@ include prelude/core.rs
//@ include prelude/chains.rs
//@ include prelude/std_specs.rs
//@ include prelude/panic.rs
pub mod u {
use super::*;

//@ assume sbb : intrinsic _subborrow_u64 (hardware subtract-with-borrow); contract from the Intel intrinsic definition
#[verifier::external_body]
fn sbb(borrow: u8, a: u64, b: u64, out: &mut u64) -> (r: u8)
    requires borrow <= 1
    ensures r <= 1, (*final(out) as nat) + (b as nat) + (borrow as nat) == (a as nat) + B() * (r as nat)
{ unimplemented!() }

//@ assume schoolbook_sub_assign_x86_64 : asm block; this slice-level contract is discharged by engine A (tools/asmvc.py) from the real template
#[verifier::external_body]
fn schoolbook_sub_assign_x86_64(lhs: &mut [u64], rhs: &[u64], size: usize) -> (r: (bool, usize))
    requires size <= old(lhs).len(), size <= rhs.len()
    ensures
        r.1 == 5 * (size / 5),
        final(lhs).len() == old(lhs).len(),
        forall|j: int| r.1 <= j < old(lhs).len() ==> final(lhs)[j] == old(lhs)[j],
        forall|j: int| 0 <= j < r.1 ==> final(lhs)[j] == diffdigit(old(lhs)@, rhs@, j),
        r.0 == (borrow_at(old(lhs)@, rhs@, r.1 as nat) == 1),
{ unimplemented!() }

//@ extract src/biguint/subtraction.rs :: fn sub2 rules=R0,R1,R10,R11 props=C01,C14,C15
pub(super) fn sub2(a: &mut [BigDigit], b: &[BigDigit])
//+{
    requires !mp() ==> val(old(a)@) >= val(b@)
    ensures
        final(a).len() == old(a).len(),
        mp() ==> val(old(a)@) >= val(b@),
        val(final(a)@) + val(b@) == val(old(a)@),
//+}
{
//+{
    let ghost oa = old(a)@;
    let ghost fa = final(a)@;
    let ghost bs = b@;
//+}
    let len = Ord::min(a.len(), b.len());
    let (a_lo, a_hi) = a.split_at_mut(len);
    let (b_lo, b_hi) = b.split_at(len);
//+{
    let ghost n = len as nat;
    let ghost olo = a_lo@;
    let ghost ohi = a_hi@;
    let ghost flo = final(a_lo)@;
    let ghost h = ohi.len();
    let ghost blo = b_lo@;
    let ghost bhi = b_hi@;
    proof {
        assert(olo =~= oa.subrange(0, n as int));
        assert(ohi =~= oa.subrange(n as int, oa.len() as int));
        assert(oa =~= olo + ohi);
        assert(bs =~= blo + bhi);
    }
//+}

    // On x86 machine, perform most of the subtraction via inline assembly
    let (b, done) = schoolbook_sub_assign_x86_64(a_lo, b_lo, len);
//+{
    let ghost mlo = a_lo@;
    proof {
        lemma_chain_sub(olo, blo, mlo, done as nat);
        lemma_valp_ext_imp(flo, mlo, done as nat);
    }
//+}

    let mut borrow = b as u8;

    for (a, b) in /*+*/it: /*-*/a_lo[done..].iter_mut().zip(b_lo[done..].iter())
//+{
        invariant
            it.seq().len() == n - done, done <= n,
            flo.len() == n, mlo.len() == n, olo.len() == n, blo.len() == n,
            borrow <= 1,
            forall|j: int| 0 <= j < done ==> flo[j] == mlo[j],
            forall|i: int| 0 <= i < it.seq().len() ==> *(#[trigger] it.seq()[i]).1 == blo[done + i],
            forall|i: int| 0 <= i < it.seq().len() ==> *((#[trigger] it.seq()[i]).0) == olo[done + i],
            forall|i: int| 0 <= i < it.seq().len() ==> *final((#[trigger] it.seq()[i]).0) == flo[done + i],
            valp(flo, (done + it.index@) as nat) + valp(blo, (done + it.index@) as nat)
                == valp(olo, (done + it.index@) as nat) + pw((done + it.index@) as nat) * (borrow as nat),
//+}
    {
//+{
        let ghost k = (done + it.index@) as nat;
        let ghost c0 = borrow;
//+}
        borrow = sbb(borrow, *a, *b, a);
//+{
        proof {
            assert(flo[k as int] == *a);
            lemma_sub_step(flo, olo, blo, k, c0 as nat, borrow as nat);
        }
//+}
    }
//+{
    let ghost c_mid = borrow;
//+}

    if borrow != 0 {
        { let mut i__ = 0 ; while i__ < a_hi.len()
//+{
            invariant_except_break
                i__ < h ==> borrow == 1,
            invariant
                a_hi.len() == h, ohi.len() == h, i__ <= h, borrow <= 1,
                forall|j: int| i__ <= j < h ==> a_hi[j] == ohi[j],
                valp(a_hi@, i__ as nat) + 1 == valp(ohi, i__ as nat) + pw(i__ as nat) * (borrow as nat),
            ensures
                a_hi.len() == h, i__ <= h, borrow <= 1,
                forall|j: int| i__ <= j < h ==> a_hi[j] == ohi[j],
                valp(a_hi@, i__ as nat) + 1 == valp(ohi, i__ as nat) + pw(i__ as nat) * (borrow as nat),
                i__ < h ==> borrow == 0,
            decreases h - i__
//+}
        {
//+{
            let ghost prev = a_hi@;
//+}
            let a = &mut a_hi[i__] ; i__ += 1 ;
//+{
            let ghost k = (i__ - 1) as nat;
            let ghost c0 = borrow;
//+}
            borrow = sbb(borrow, *a, 0, a);
//+{
            proof {
                lemma_valp_ext(prev, a_hi@, k);
                lemma_sub_step1(a_hi@, ohi, k, c0 as nat, borrow as nat);
            }
//+}
            if borrow == 0 {
                break;
            }
        }
//+{
        proof {
            lemma_tail_same_sub(a_hi@, ohi, i__ as nat, borrow as nat);
        }
//+}
        }
    }
//+{
    proof {
        let fhi = a_hi@;
        assert(fa =~= flo + fhi);
        if c_mid == 0 { assert(fhi =~= ohi); }
        lemma_sub2_final(oa, olo, ohi, fa, flo, fhi, blo, c_mid as nat, borrow as nat);
        lemma_sub_assert(oa, fa, bs, blo, bhi, borrow as nat);
    }
//+}

    // note: we're _required_ to fail on underflow
    __assert(
        borrow == 0 && b_hi.iter().all(|x| /*+*/-> (r: bool) ensures r == (*x == 0) {/*-*/ *x == 0 /*+*/}/*-*/)
    );
//+{
    proof {
        assert forall|i: int| 0 <= i < bhi.len() implies bhi[i] == 0 by {
            let x = b_hi@.as_ref()[i];
        }
    }
//+}
}
//@ end

//@ extract src/biguint/subtraction.rs :: fn __sub2rev props=C01,C14
fn __sub2rev(a: &[BigDigit], b: &mut [BigDigit]) -> /*+*/(r: /*-*/u8/*+*/)/*-*/
//+{
    requires old(b).len() == a.len()
    ensures
        final(b).len() == old(b).len(), r <= 1,
        val(final(b)@) + val(old(b)@) == val(a@) + pw(a.len() as nat) * (r as nat),
//+}
{
//+{
    let ghost ob = old(b)@;
    let ghost fb = final(b)@;
    let ghost a_s = a@;
    let ghost n = a.len() as nat;
//+}
    debug_assert!(b.len() == a.len());

    let mut borrow = 0;

    for (ai, bi) in /*+*/it: /*-*/a.iter().zip(b)
//+{
        invariant
            it.seq().len() == n, fb.len() == n, ob.len() == n, a_s.len() == n,
            borrow <= 1,
            forall|i: int| 0 <= i < it.seq().len() ==> *(#[trigger] it.seq()[i]).0 == a_s[i],
            forall|i: int| 0 <= i < it.seq().len() ==> *((#[trigger] it.seq()[i]).1) == ob[i],
            forall|i: int| 0 <= i < it.seq().len() ==> *final((#[trigger] it.seq()[i]).1) == fb[i],
            valp(fb, it.index@ as nat) + valp(ob, it.index@ as nat) == valp(a_s, it.index@ as nat) + pw(it.index@ as nat) * (borrow as nat),
//+}
    {
//+{
        let ghost k = it.index@ as nat;
        let ghost c0 = borrow;
//+}
        borrow = sbb(borrow, *ai, *bi, bi);
//+{
        proof {
            assert(fb[k as int] == *bi);
            lemma_sub_step(fb, a_s, ob, k, c0 as nat, borrow as nat);
        }
//+}
    }

    borrow
}
//@ end

//@ extract src/biguint/subtraction.rs :: fn sub2rev rules=R0,R11,R11a props=C01,C14
fn sub2rev(a: &[BigDigit], b: &mut [BigDigit])
//+{
    requires
        old(b).len() >= a.len(),
        !mp() ==> val(a@) >= val(old(b)@),
    ensures
        final(b).len() == old(b).len(),
        mp() ==> val(a@) >= val(old(b)@),
        val(final(b)@) + val(old(b)@) == val(a@),
//+}
{
//+{
    let ghost ob = old(b)@;
    let ghost fb = final(b)@;
    let ghost a_s = a@;
//+}
    debug_assert!(b.len() >= a.len());

    let len = Ord::min(a.len(), b.len());
    let (a_lo, a_hi) = a.split_at(len);
    let (b_lo, b_hi) = b.split_at_mut(len);
//+{
    let ghost blo = b_lo@;
    let ghost bhi = b_hi@;
    let ghost flo = final(b_lo)@;
    proof {
        assert(a_lo@ =~= a_s);
        assert(ob =~= blo + bhi);
    }
//+}

    let borrow = __sub2rev(a_lo, b_lo);

    __assert(a_hi.is_empty());
//+{
    proof {
        // b_hi is only read: its final value is its current value
        assert(fb =~= flo + b_hi@);
        lemma_val_concat(flo, bhi);
        lemma_val_concat(blo, bhi);
        lemma_sub_assert_rev(a_s, flo, ob, blo, bhi, borrow as nat);
    }
//+}

    // note: we're _required_ to fail on underflow
    __assert(
        borrow == 0 && b_hi.iter().all(|x| /*+*/-> (r: bool) ensures r == (*x == 0) {/*-*/ *x == 0 /*+*/}/*-*/)
    );
//+{
    proof {
        assert forall|i: int| 0 <= i < bhi.len() implies bhi[i] == 0 by {
            let x = b_hi@.as_ref()[i];
        }
    }
//+}
}
//@ end

} // mod u
} // verus!
fn main() {}
