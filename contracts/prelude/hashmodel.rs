// Ghost model of std hashing: a Hasher carries a log of the data fed to it; std's Hash impls append a token that is a
// function of their argument's abstract view (Vec<T>: the element sequence, i.e. length and elements; a field-less enum
// with derived Hash: the variant). Nothing is said about the hash value itself.
pub struct HashTok;
pub uninterp spec fn hlog<H>(h: &H) -> Seq<HashTok>;
pub uninterp spec fn tok_seq<T>(s: Seq<T>) -> HashTok;
pub uninterp spec fn tok_sign(s: Sign) -> HashTok;
//@ assume Vec::hash : std: feeds the length and the elements in order - a function of the element sequence
pub assume_specification<T: core::hash::Hash, A: core::alloc::Allocator, H: core::hash::Hasher>[ <Vec<T, A> as core::hash::Hash>::hash::<H> ](v: &Vec<T, A>, state: &mut H)
    ensures hlog(final(state)) == hlog(old(state)).push(tok_seq(v@));
//@ assume Sign::hash(derived) : #[derive(Hash)] on a field-less enum feeds the discriminant - a function of the variant
pub assume_specification<H: core::hash::Hasher>[ <Sign as core::hash::Hash>::hash::<H> ](v: &Sign, state: &mut H)
    ensures hlog(final(state)) == hlog(old(state)).push(tok_sign(*v));
