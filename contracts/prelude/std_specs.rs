// Assumed specifications of std items that this vstd lacks. Each mirrors the std documentation.
//@ assume std::<&mut [T]>::into_iter : mirrors vstd's spec of <[T]>::iter_mut (std: `impl IntoIterator for &mut [T]` is `self.iter_mut()`)
pub assume_specification<'a, T>[ <&'a mut [T] as core::iter::IntoIterator>::into_iter ](slice: &'a mut [T]) -> (iter: core::slice::IterMut<'a, T>)
    ensures
        iter.remaining().len() == old(slice)@.len(),
        old(slice)@.len() == final(slice)@.len(),
        forall|i: int| 0 <= i < old(slice)@.len() ==> *(#[trigger] iter.remaining()[i]) == old(slice)@[i],
        forall|i: int| 0 <= i < old(slice)@.len() ==> *final(#[trigger] iter.remaining()[i]) == final(slice)@[i],
        iter.obeys_prophetic_iter_laws(),
        iter.will_return_none(),
        iter.decrease() is Some,
;

//@ assume std::Vec::capacity : std documentation: capacity() >= len()
pub assume_specification<T, A: core::alloc::Allocator>[ Vec::<T, A>::capacity ](v: &Vec<T, A>) -> (r: usize)
    ensures r >= v@.len();

//@ assume std::Vec::shrink_to_fit : std documentation: contents unchanged
pub assume_specification<T, A: core::alloc::Allocator>[ Vec::<T, A>::shrink_to_fit ](v: &mut Vec<T, A>)
    ensures final(v)@ == old(v)@;

//@ assume __vec_u64_clone_from : rule R57: std semantics of `a.clone_from(&b)` for Vec<u64> (the receiver becomes a copy of the argument)
#[verifier::external_body]
pub fn __vec_u64_clone_from(a: &mut Vec<u64>, b: &Vec<u64>)
    ensures final(a)@ == b@
{ unimplemented!() }

//@ assume __rpos_nz_len : rule R12a: std semantics of `s.iter().rposition(|&d| d != 0).map_or(0, |i| i + 1)`
#[verifier::external_body]
pub fn __rpos_nz_len(s: &[u64]) -> (r: usize)
    ensures r <= s.len(), r == 0 || s[r - 1] != 0, forall|j: int| r <= j < s.len() ==> s[j] == 0
{ unimplemented!() }

//@ assume __pos_nz : rule R12b: std semantics of `s.iter().position(|&d| d != 0)`
#[verifier::external_body]
pub fn __pos_nz(s: &[u64]) -> (r: Option<usize>)
    ensures
        match r {
            Some(i) => i < s.len() && s[i as int] != 0 && forall|j: int| 0 <= j < i ==> s[j] == 0,
            None => forall|j: int| 0 <= j < s.len() ==> s[j] == 0,
        }
{ unimplemented!() }

//@ assume std::<T as From<T>>::from : reflexive conversion is the identity (std: `impl<T> From<T> for T { fn from(t: T) -> T { t } }`)
pub assume_specification<T>[ <T as core::convert::From<T>>::from ](x: T) -> (r: T)
    ensures r == x;

//@ assume __cmp_rev : rule R12c: std semantics of `Iterator::cmp(a.iter().rev(), b.iter().rev())` for equal lengths: lexicographic comparison from the last element down
#[verifier::external_body]
pub fn __cmp_rev(a: &[u64], b: &[u64]) -> (r: core::cmp::Ordering)
    requires a.len() == b.len()
    ensures
        (r == core::cmp::Ordering::Equal) <==> (a@ == b@),
        (r == core::cmp::Ordering::Less) <==> (exists|k: int| 0 <= k < a.len() && a[k] < b[k] && forall|j: int| k < j < a.len() ==> a[j] == b[j]),
        (r == core::cmp::Ordering::Greater) <==> (exists|k: int| 0 <= k < a.len() && a[k] > b[k] && forall|j: int| k < j < a.len() ==> a[j] == b[j]),
{ unimplemented!() }

pub open spec fn is_pow2_u32(x: u32) -> bool { x != 0 && (x & ((x - 1) as u32)) == 0 }

//@ assume std::u32::is_power_of_two : std documentation: true iff self == 2^k for some k
pub assume_specification[ u32::is_power_of_two ](x: u32) -> (r: bool)
    ensures r == is_pow2_u32(x);

//@ assume __from_utf8_unchecked : rule R1u: String::from_utf8_unchecked; its safety precondition (valid UTF-8; here: every byte ASCII) is the `requires`
#[verifier::external_body]
pub fn __from_utf8_unchecked(v: Vec<u8>) -> (r: String)
    requires forall|i: int| 0 <= i < v@.len() ==> v@[i] < 128
    ensures sbytes(r) == v@, r@ == ascii_chars(v@)
{ unimplemented!() }
/// ASCII bytes as characters
pub open spec fn ascii_chars(s: Seq<u8>) -> Seq<char> { s.map_values(|b: u8| b as char) }
/// the UTF-8 bytes of a String (uninterpreted; fixed by the constructor above)
pub uninterp spec fn sbytes(s: String) -> Seq<u8>;

//@ assume __any_ge : rule R12d: std semantics of `s.iter().any(|&b| b >= x)`
#[verifier::external_body]
pub fn __any_ge(s: &[u8], x: u8) -> (r: bool)
    ensures r == exists|i: int| 0 <= i < s.len() && s[i] >= x
{ unimplemented!() }

//@ assume std::<[T]>::reverse : std documentation: reverses the order of elements in the slice, in place
pub assume_specification<T>[ <[T]>::reverse ](s: &mut [T])
    ensures final(s)@.len() == old(s)@.len(), forall|i: int| 0 <= i < old(s)@.len() ==> final(s)@[i] == old(s)@[old(s)@.len() - 1 - i];

//@ assume std::PartialOrd::le(default) : rule R16: `*a <= *b` on a type whose PartialOrd::partial_cmp is `Some(self.cmp(other))` (as for BigInt/BigUint) is `a.cmp(b) != Greater` (std default method `le`)
pub open spec fn ord_le(o: core::cmp::Ordering) -> bool { o != core::cmp::Ordering::Greater }

//@ assume std::<Ordering as PartialEq>::eq : std's `#[derive(PartialEq)]` on the field-less enum core::cmp::Ordering is structural equality
pub assume_specification[ <core::cmp::Ordering as core::cmp::PartialEq>::eq ](a: &core::cmp::Ordering, b: &core::cmp::Ordering) -> (r: bool)
    ensures r == (*a == *b);

//@ assume std::<usize as From<bool>>::from : std documentation: false -> 0, true -> 1
pub assume_specification[ <usize as core::convert::From<bool>>::from ](b: bool) -> (r: usize)
    ensures r == (if b { 1usize } else { 0usize });

//@ assume std::<[T]>::split_last : std documentation: last element and the rest, None if empty
pub assume_specification<T>[ <[T]>::split_last ](s: &[T]) -> (r: Option<(&T, &[T])>)
    ensures
        s@.len() == 0 ==> r is None,
        s@.len() > 0 ==> r is Some && *r.unwrap().0 == s@[s@.len() - 1] && r.unwrap().1@ == s@.subrange(0, s@.len() - 1);

pub open spec fn is_pow2_u64(x: u64) -> bool { x != 0 && (x & ((x - 1) as u64)) == 0 }

//@ assume std::u64::is_power_of_two : std documentation: true iff self == 2^k for some k
pub assume_specification[ u64::is_power_of_two ](x: u64) -> (r: bool)
    ensures r == is_pow2_u64(x);

/// a power of two equals 2^(its number of trailing zeros)   (proved from vstd's trailing_zeros axiom)
pub proof fn lemma_pow2_tz(b: u64)
    requires is_pow2_u64(b)
    ensures vstd::std_specs::bits::u64_trailing_zeros(b) < 64,
        b as nat == vstd::arithmetic::power2::pow2(vstd::std_specs::bits::u64_trailing_zeros(b) as nat)
{
    vstd::std_specs::bits::axiom_u64_trailing_zeros(b);
    let t = vstd::std_specs::bits::u64_trailing_zeros(b);
    let tt = t as u64;
    assert(b == 1u64 << tt) by (bit_vector) requires tt < 64, (b >> tt) & 1u64 == 1u64, b & ((b - 1) as u64) == 0, b != 0;
    vstd::arithmetic::power2::lemma2_to64();
    vstd::arithmetic::power2::lemma_pow2_strictly_increases(t as nat, 64);
    assert(1 * vstd::arithmetic::power2::pow2(t as nat) == vstd::arithmetic::power2::pow2(t as nat)) by (nonlinear_arith);
    vstd::bits::lemma_u64_shl_is_mul(1u64, tt);
}

//@ assume __vec_is_one : rule R12f: std semantics of `v == [1]` for a Vec<u64> (slice/array equality)
#[verifier::external_body]
pub fn __vec_is_one(v: &Vec<u64>) -> (r: bool)
    ensures r == (v@ =~= seq![1u64])
{ unimplemented!() }

//@ assume axiom_vec_u64_len : target x86_64: user-space virtual addresses have at most 57 bits (Rust additionally caps allocations at isize::MAX bytes), so a Vec<u64> has fewer than 2^54 elements; stated with slack as < 2^57 (= MAX_DIGITS of prelude/highbits.rs)
#[verifier::external_body]
pub proof fn axiom_vec_u64_len(v: &Vec<u64>)
    ensures v@.len() < 0x200_0000_0000_0000
{ }

//@ assume axiom_slice_u64_len : same address-space argument as axiom_vec_u64_len, for a borrowed slice of digits
#[verifier::external_body]
pub proof fn axiom_slice_u64_len(v: &[u64])
    ensures v@.len() < 0x200_0000_0000_0000
{ }

//@ assume std::i32/i64/i128::wrapping_neg : std documentation: two's-complement negation; MIN.wrapping_neg() == MIN
pub assume_specification[ i32::wrapping_neg ](x: i32) -> (r: i32)
    ensures r as int == (if x == i32::MIN { x as int } else { -(x as int) });
pub assume_specification[ i64::wrapping_neg ](x: i64) -> (r: i64)
    ensures r as int == (if x == i64::MIN { x as int } else { -(x as int) });
pub assume_specification[ i128::wrapping_neg ](x: i128) -> (r: i128)
    ensures r as int == (if x == i128::MIN { x as int } else { -(x as int) });

//@ assume std::mem::replace : std documentation: moves `src` into `dest`, returning the previous `dest` value
pub assume_specification<T>[ core::mem::replace::<T> ](dest: &mut T, src: T) -> (r: T)
    ensures *final(dest) == src, r == *old(dest);

//@ assume std::<[T]>::to_vec : std documentation: clones the elements of the slice into a new Vec
pub assume_specification<T: Clone>[ <[T]>::to_vec ](s: &[T]) -> (r: Vec<T>)
    ensures r@.len() == s@.len(), forall|i: int| 0 <= i < s@.len() ==> cloned::<T>(s@[i], #[trigger] r@[i]);

//@ assume __vec_drain_front : rule R12i: std semantics of `v.drain(..d);` with the Drain iterator dropped at once: the first d elements are removed (panics if d > len)
#[verifier::external_body]
pub fn __vec_drain_front(v: &mut Vec<u64>, d: usize)
    requires d <= old(v)@.len()
    ensures final(v)@ == old(v)@.subrange(d as int, old(v)@.len() as int)
{ unimplemented!() }

//@ assume __last_is_zero : rule R12n: semantics of the pattern `Some(&0) = v.last()`: v is non-empty and its last element is 0
#[verifier::external_body]
pub fn __last_is_zero(v: &Vec<u8>) -> (r: bool)
    ensures r == (v@.len() > 0 && v@[v@.len() - 1] == 0)
{ unimplemented!() }

//@ assume std::i32/i64/i128::unsigned_abs : std documentation: the absolute value as the unsigned type (MIN maps to 2^(BITS-1))
pub assume_specification[ i32::unsigned_abs ](x: i32) -> (r: u32)
    ensures r as int == (if x < 0 { -(x as int) } else { x as int });
pub assume_specification[ i64::unsigned_abs ](x: i64) -> (r: u64)
    ensures r as int == (if x < 0 { -(x as int) } else { x as int });
pub assume_specification[ i128::unsigned_abs ](x: i128) -> (r: u128)
    ensures r as int == (if x < 0 { -(x as int) } else { x as int });

//@ assume std::u64::wrapping_neg : std documentation: wrapping (modular) negation, 0 - self modulo 2^64
pub assume_specification[ u64::wrapping_neg ](x: u64) -> (r: u64)
    ensures r as int == (if x == 0 { 0int } else { 0x1_0000_0000_0000_0000 - (x as int) });

//@ assume __position_nonzero : rule R28a: std semantics of `s.iter().position(|&r| r != 0)`: index of the first non-zero element, None if there is none
#[verifier::external_body]
pub fn __position_nonzero(s: &[u64]) -> (r: Option<usize>)
    ensures match r {
        None => forall|j: int| 0 <= j < s@.len() ==> s@[j] == 0,
        Some(i) => i < s@.len() && s@[i as int] != 0 && forall|j: int| 0 <= j < i ==> s@[j] == 0,
    }
{ unimplemented!() }

//@ assume __slice_next_back : rules R28b/R28c: a slice iterator modelled by the sub-slice it has yet to yield; `next_back` yields a reference to its last element and shrinks it by one, or None on empty
#[verifier::external_body]
pub fn __slice_next_back<'a>(s: &'a [u64]) -> (r: (Option<&'a u64>, &'a [u64]))
    ensures match r.0 {
        None => s@.len() == 0 && r.1@ =~= s@,
        Some(x) => s@.len() > 0 && *x == s@[s@.len() - 1] && r.1@ =~= s@.subrange(0, s@.len() - 1),
    }
{ unimplemented!() }

//@ assume __usize_cmp : rule R16u: std `Ord::cmp` on usize is the numeric order
#[verifier::external_body]
pub fn __usize_cmp(a: usize, b: usize) -> (r: core::cmp::Ordering)
    ensures r == (if a < b { core::cmp::Ordering::Less } else if a == b { core::cmp::Ordering::Equal } else { core::cmp::Ordering::Greater })
{ unimplemented!() }

//@ assume __u64_cmp : rule R16v: std `Ord::cmp` on u64 is the numeric order
#[verifier::external_body]
pub fn __u64_cmp(a: u64, b: u64) -> (r: core::cmp::Ordering)
    ensures r == (if a < b { core::cmp::Ordering::Less } else if a == b { core::cmp::Ordering::Equal } else { core::cmp::Ordering::Greater })
{ unimplemented!() }

//@ assume __all_zero_but_last : rule R30a: std semantics of `v.iter().rev().skip(1).all(Zero::is_zero)` on bytes
#[verifier::external_body]
pub fn __all_zero_but_last(v: &Vec<u8>) -> (r: bool)
    ensures r == (forall|j: int| 0 <= j < v@.len() - 1 ==> v@[j] == 0)
{ unimplemented!() }
//@ assume __all_zero_but_first : rule R30b: std semantics of `v.iter().skip(1).all(Zero::is_zero)` on bytes
#[verifier::external_body]
pub fn __all_zero_but_first(v: &Vec<u8>) -> (r: bool)
    ensures r == (forall|j: int| 1 <= j < v@.len() ==> v@[j] == 0)
{ unimplemented!() }
//@ assume __last_or_zero : rule R30c: std semantics of `v.last().cloned().unwrap_or(0)`
#[verifier::external_body]
pub fn __last_or_zero(v: &Vec<u8>) -> (r: u8)
    ensures r == (if v@.len() > 0 { v@[v@.len() - 1] } else { 0u8 })
{ unimplemented!() }
//@ assume __first_or_zero : rule R30d: std semantics of `v.first().cloned().unwrap_or(0)`
#[verifier::external_body]
pub fn __first_or_zero(v: &Vec<u8>) -> (r: u8)
    ensures r == (if v@.len() > 0 { v@[0] } else { 0u8 })
{ unimplemented!() }

//@ assume __slice_last_is_zero : rule R36a: `if let Some(&0) = s.last()`: s is non-empty and its last element is 0
#[verifier::external_body]
pub fn __slice_last_is_zero(s: &[u64]) -> (r: bool)
    ensures r == (s@.len() > 0 && s@[s@.len() - 1] == 0)
{ unimplemented!() }
//@ assume __slice_first_is_zero : rule R36b: `if let Some(&0) = s.first()`: s is non-empty and its first element is 0
#[verifier::external_body]
pub fn __slice_first_is_zero(s: &[u64]) -> (r: bool)
    ensures r == (s@.len() > 0 && s@[0] == 0)
{ unimplemented!() }
//@ assume __rposition_nonzero_end : rule R36c: std semantics of `s.iter().rposition(|&x| x != 0).map_or(0, |i| i + 1)`
#[verifier::external_body]
pub fn __rposition_nonzero_end(s: &[u64]) -> (r: usize)
    ensures r <= s@.len(), r > 0 ==> s@[r - 1] != 0, forall|j: int| r <= j < s@.len() ==> s@[j] == 0
{ unimplemented!() }

//@ assume __pos_not_ones : rule R12b2: std semantics of `s.iter().position(|&digit| !digit != 0)`
#[verifier::external_body]
pub fn __pos_not_ones(s: &[u64]) -> (r: Option<usize>)
    ensures
        match r {
            Some(i) => i < s.len() && s[i as int] != 0xffff_ffff_ffff_ffffu64 && forall|j: int| 0 <= j < i ==> s[j] == 0xffff_ffff_ffff_ffffu64,
            None => forall|j: int| 0 <= j < s.len() ==> s[j] == 0xffff_ffff_ffff_ffffu64,
        }
{ unimplemented!() }

//@ assume __last_is_zero64 : rule R12o: `v.last() == Some(&0)` for a Vec<u64>: v is non-empty and its last element is 0
#[verifier::external_body]
pub fn __last_is_zero64(v: &Vec<u64>) -> (r: bool)
    ensures r == (v@.len() > 0 && v@[v@.len() - 1] == 0)
{ unimplemented!() }

// rule R47: `&mut v[a..e]` panics unless a <= e <= len (core::slice::index); kept as a proof obligation of the caller
pub fn __slice_range_check(a: usize, e: usize, n: usize)
    requires a <= e <= n
{ }
