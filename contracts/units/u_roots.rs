//@ unit u_roots : Newton fixpoint iteration and BigUint sqrt / cbrt / nth_root (src/biguint.rs)
#![feature(allocator_api)]
use vstd::prelude::*;
use vstd::std_specs::iter::IteratorSpec;
use vstd::std_specs::ops::*;
use vstd::arithmetic::power2::pow2;
use core::ops::{Add, Div, Mul, Shl, Shr};
use vstd::arithmetic::power::pow;
use core::cmp::Ordering;
use core::cmp::Ordering::{Equal, Greater, Less};
verus! {
//@ include prelude/core.rs
//@ include prelude/std_specs.rs
//@ include prelude/panic.rs
//@ include prelude/roots.rs
//@ include prelude/highbits.rs
pub mod u {
use super::*;

//@ extract src/biguint.rs :: struct BigUint
pub struct BigUint {
    data: Vec<BigDigit>,
}
//@ end
//@ include prelude/biguint_view.rs
pub open spec fn p2(k: nat) -> nat { pow2(k) }
pub open spec fn ord_of(a: nat, b: nat) -> Ordering {
    if a < b { Ordering::Less } else if a == b { Ordering::Equal } else { Ordering::Greater }
}
impl BigUint {
//@ stub u_core/is_zero
//@ stub u_core/is_one
//@ stub u_core/clone
//@ stub u_core/one
//@ stub u_cmp/cmp
//@ stub u_conv/bits
}
impl ShlSpecImpl<u64> for BigUint {
    open spec fn obeys_shl_spec() -> bool { false }
    open spec fn shl_req(self, rhs: u64) -> bool { self.wf() }
    open spec fn shl_spec(self, rhs: u64) -> BigUint { arbitrary() }
}
impl Shl<u64> for BigUint {
    type Output = BigUint;
//@ stub u_shiftops/shl_u64
}

/// a value with `bits` significant bits is below 2^bits, and at least 2^(bits-1)
pub open spec fn bits_ok(v: nat, bits: nat) -> bool { v < p2(bits) && (v != 0 ==> v >= p2((bits - 1) as nat)) }

//@ extract src/biguint.rs :: fn fixpoint rules=R0,R16w,R16x props=C11
fn fixpoint<F>(mut x: BigUint, max_bits: u64, f: F/*+*/, Ghost(g): Ghost<spec_fn(nat) -> nat>, Ghost(r): Ghost<nat>/*-*/) -> /*+*/(res: /*-*/BigUint/*+*/)/*-*/
where
    F: Fn(&BigUint) -> BigUint,
//+{
    requires
        x.wf(), x.v() >= 1, r >= 1, r < p2(max_bits as nat),
        forall|s: &BigUint| s.wf() && s.v() >= 1 ==> #[trigger] f.requires((s,)),
        forall|s: &BigUint, y: BigUint| s.wf() && s.v() >= 1 && #[trigger] f.ensures((s,), y) ==> y.wf() && y.v() == g(s.v()),
        forall|s: nat| s >= 1 ==> #[trigger] g(s) >= r,
        forall|s: nat| s > r ==> #[trigger] g(s) < s,
    ensures res.wf(), res.v() == r
//+}
{
    let mut xn = f(&x);

    // If the value increased, then the initial guess must have been low.
    // Repeat until we reverse course.
    while x < xn
//+{
        invariant
            x.wf(), xn.wf(), x.v() >= 1, xn.v() == g(x.v()), r >= 1, r < p2(max_bits as nat),
            forall|s: &BigUint| s.wf() && s.v() >= 1 ==> #[trigger] f.requires((s,)),
            forall|s: &BigUint, y: BigUint| s.wf() && s.v() >= 1 && #[trigger] f.ensures((s,), y) ==> y.wf() && y.v() == g(s.v()),
            forall|s: nat| s >= 1 ==> #[trigger] g(s) >= r,
            forall|s: nat| s > r ==> #[trigger] g(s) < s,
        decreases (if x.v() <= p2(max_bits as nat) { p2(max_bits as nat) - x.v() } else { 0 })
//+}
    {
        // Sometimes an increase will go way too far, especially with large
        // powers, and then take a long time to walk back.  We know an upper
        // bound based on bit size, so saturate on that.
//+{
        proof {
            // x < g(x) is only possible at or below the root
            if x.v() > r { assert(g(x.v()) < x.v()); }
            assert(1 * p2(max_bits as nat) == p2(max_bits as nat)) by (nonlinear_arith);
            assert forall|b: nat| b <= max_bits as nat implies #[trigger] pow2(b) <= pow2(max_bits as nat) by {
                if b < max_bits as nat { vstd::arithmetic::power2::lemma_pow2_strictly_increases(b, max_bits as nat); }
            }
        }
//+}
        x = if xn.bits() > max_bits {
            BigUint::one() << max_bits
        } else {
            xn
        };
        xn = f(&x);
    }

    // Now keep repeating while the estimate is decreasing.
    while x > xn
//+{
        invariant
            x.wf(), xn.wf(), x.v() >= r, xn.v() == g(x.v()), r >= 1,
            forall|s: &BigUint| s.wf() && s.v() >= 1 ==> #[trigger] f.requires((s,)),
            forall|s: &BigUint, y: BigUint| s.wf() && s.v() >= 1 && #[trigger] f.ensures((s,), y) ==> y.wf() && y.v() == g(s.v()),
            forall|s: nat| s >= 1 ==> #[trigger] g(s) >= r,
            forall|s: nat| s > r ==> #[trigger] g(s) < s,
        decreases x.v()
//+}
    {
        x = xn;
        xn = f(&x);
    }
    x
}
//@ end

impl vstd::std_specs::convert::FromSpecImpl<u64> for BigUint {
    open spec fn obeys_from_spec() -> bool { false }
    open spec fn from_spec(v: u64) -> BigUint { arbitrary() }
}
impl From<u64> for BigUint {
//@ stub u_conv/from_u64
}
pub open spec fn udiv_ok(a: nat, b: nat, q: nat, m: nat) -> bool { a == q * b + m && m < b }
impl DivSpecImpl<&BigUint> for &BigUint {
    open spec fn obeys_div_spec() -> bool { false }
    open spec fn div_req(self, rhs: &BigUint) -> bool { self.wf() && rhs.wf() && (!mp() ==> rhs.v() != 0) }
    open spec fn div_spec(self, rhs: &BigUint) -> BigUint { arbitrary() }
}
impl Div<&BigUint> for &BigUint {
    type Output = BigUint;
//@ stub u_divapi/div_ref_ref
}
impl AddSpecImpl<BigUint> for &BigUint {
    open spec fn obeys_add_spec() -> bool { false }
    open spec fn add_req(self, rhs: BigUint) -> bool { self.wf() && rhs.wf() }
    open spec fn add_spec(self, rhs: BigUint) -> BigUint { arbitrary() }
}
impl Add<BigUint> for &BigUint {
    type Output = BigUint;
//@ stub u_fwd/add_ref_val
}
impl ShrSpecImpl<i32> for BigUint {
    open spec fn obeys_shr_spec() -> bool { false }
    open spec fn shr_req(self, rhs: i32) -> bool { self.wf() && (!mp() ==> rhs >= 0) }
    open spec fn shr_spec(self, rhs: i32) -> BigUint { arbitrary() }
}
impl Shr<i32> for BigUint {
    type Output = BigUint;
//@ stub u_shiftops/shr_i32
}
impl BigUint {
//@ stub u_conv/to_u64
}

//@ assume __float_guess : rule R24b: stands for the floating-point arm of the initial guess of sqrt/cbrt/nth_root (self.to_f64(), is_finite, f64 sqrt/cbrt/ln/exp, BigUint::from_f64(..).unwrap()); assumed to return either some positive canonical value without panicking, or None only for operands of at least 2^1023 (to_f64 of a smaller value is finite); the result of the root functions is proved for every such value
#[verifier::external_body]
fn __float_guess(x: &BigUint) -> (r: Option<BigUint>)
    ensures match r { Some(g) => g.wf() && g.v() >= 1, None => x.v() >= p2(1023) }
{ unimplemented!() }

//@ assume __u64_div_ceil : num_integer::Integer::div_ceil on u64 (external crate, rule R3dc): ceiling of the quotient
#[verifier::external_body]
fn __u64_div_ceil(a: u64, b: u64) -> (r: u64)
    requires b != 0
    ensures (r as nat) * (b as nat) >= a as nat, (r as nat) * (b as nat) < a as nat + b as nat
{ unimplemented!() }

impl ShrSpecImpl<u64> for &BigUint {
    open spec fn obeys_shr_spec() -> bool { false }
    open spec fn shr_req(self, rhs: u64) -> bool { self.wf() }
    open spec fn shr_spec(self, rhs: u64) -> BigUint { arbitrary() }
}
impl Shr<u64> for &BigUint {
    type Output = BigUint;
//@ stub u_shiftops/shr_ref_u64
}

/// the scaled-down operand of the fallback guess is positive and smaller than the operand
pub proof fn lemma_scaled(v: nat, bits: nat, scale: nat)
    requires bits >= 1, v >= p2((bits - 1) as nat), 1 <= scale <= bits - 1
    ensures 1 <= v / p2(scale) < v, p2(scale) >= 2
{
    vstd::arithmetic::power2::lemma_pow2_pos(scale);
    vstd::arithmetic::power2::lemma2_to64();
    if scale < bits - 1 { vstd::arithmetic::power2::lemma_pow2_strictly_increases(scale, (bits - 1) as nat); }
    if 1 < scale { vstd::arithmetic::power2::lemma_pow2_strictly_increases(1, scale); }
    vstd::arithmetic::div_mod::lemma_div_non_zero(v as int, p2(scale) as int);
    vstd::arithmetic::div_mod::lemma_div_decreases(v as int, p2(scale) as int);
}

/// the fallback arm is reached only with at least 1024 significant bits
pub proof fn lemma_big_bits(v: nat, bits: nat)
    requires v >= p2(1023), v < p2(bits)
    ensures bits >= 1024
{
    if bits < 1023 { vstd::arithmetic::power2::lemma_pow2_strictly_increases(bits, 1023); }
}

//@ assume __u64_sqrt : num_integer::Roots::sqrt on u64 (external crate): the floor square root (rule R3u2)
#[verifier::external_body]
fn __u64_sqrt(x: u64) -> (r: u64)
    ensures is_root(x as nat, 2, r as nat)
{ unimplemented!() }

impl BigUint {
    // contract-only re-homing of `impl Roots for BigUint` (num_integer::Roots is an external trait)
//@ extract src/biguint.rs :: impl Roots for BigUint :: fn sqrt rules=R0,R24b,R24c,R3rs,R3u2 ufcs=self/s,s+q props=C11,C14
    fn sqrt(&self) -> /*+*/(res: /*-*/Self/*+*/)/*-*/
//+{
        requires self.wf()
        ensures res.wf(), is_root(self.v(), 2, res.v())
        decreases self.v()
//+}
    {
//+{
        let ghost a = self.v();
        proof {
            vstd::arithmetic::power::lemma0_pow(2);
            vstd::arithmetic::power::lemma1_pow(2);
            vstd::arithmetic::power::lemma_pow_positive(2, 2);
            lemma_npw(2, 1); lemma_npw(2, 0);
        }
//+}
        if self.is_zero() || self.is_one() {
            return self.clone();
        }

        // If we fit in `u64`, compute the root that way.
        if let Some(x) = self.to_u64() {
            return From::from(__u64_sqrt(x));
        }

        let bits = self.bits();
        let max_bits = bits / 2 + 1;

        let guess = match __float_guess(self) {
            Some(g__) => g__,
            None => {
                // Try to guess by scaling down such that it does fit in `f64`.
                // With some (x * 2²ᵏ), its sqrt ≈ (√x * 2ᵏ)
//+{
                proof { lemma_big_bits(a, bits as nat); axiom_vec_u64_len(&self.data); lemma_nbits_range(self.data@[self.data@.len() - 1]); }
//+}
                let extra_bits = bits - (1024u64 - 1);
                let root_scale = (extra_bits + 1) / 2;
                let scale = root_scale * 2;
//+{
                proof {
                    lemma_scaled(a, bits as nat, scale as nat);
                    vstd::arithmetic::power2::lemma_pow2_pos(root_scale as nat);
                    assert forall|x: nat, y: nat| x >= 1 && y >= 1 implies #[trigger] (x * y) >= 1 by { assert(x * y >= 1) by (nonlinear_arith) requires x >= 1, y >= 1; }
                }
//+}
                Shl::shl(Shr::shr(self, scale).sqrt(), root_scale)
            }
        };
//+{
        proof { lemma_root_exists(a, 2); }
        let ghost r = choose|r: nat| is_root(a, 2, r);
        proof {
            lemma_root_bounds(a, 2, r, bits as nat, max_bits as nat);
            assert forall|s: nat| s >= 1 implies #[trigger] newton(a, 2, s) >= r by { lemma_newton_lower(a, 2, r, s); }
            assert forall|s: nat| s > r implies #[trigger] newton(a, 2, s) < s by { lemma_newton_decr(a, 2, r, s); }
        }
//+}

        fixpoint(guess, max_bits, move |s/*+*/: &BigUint/*-*/| /*+*/-> (y: BigUint)
            requires s.wf() && s.v() >= 1
            ensures y.wf() && y.v() == newton(a, 2, s.v())
        /*-*/{
            let q = Div::div(self, s);
//+{
            proof {
                let m = choose|m: nat| #[trigger] udiv_ok(a, s.v(), q.v(), m);
                lemma_udiv_is_div(a, s.v(), q.v(), m);
                lemma_npw(s.v(), 0);
                vstd::arithmetic::power2::lemma2_to64();
            }
//+}
            let t = Add::add(s, q);
            t >> 1
        }/*+*/, Ghost(|s: nat| newton(a, 2, s)), Ghost(r)/*-*/)
    }
//@ end
}

// ---- further operator forms used by cbrt / nth_root
impl MulSpecImpl<&BigUint> for &BigUint {
    open spec fn obeys_mul_spec() -> bool { false }
    open spec fn mul_req(self, rhs: &BigUint) -> bool { self.wf() && rhs.wf() }
    open spec fn mul_spec(self, rhs: &BigUint) -> BigUint { arbitrary() }
}
impl Mul<&BigUint> for &BigUint {
    type Output = BigUint;
//@ stub u_mul/mul_rr
}
impl DivSpecImpl<BigUint> for &BigUint {
    open spec fn obeys_div_spec() -> bool { false }
    open spec fn div_req(self, rhs: BigUint) -> bool { self.wf() && rhs.wf() && (!mp() ==> rhs.v() != 0) }
    open spec fn div_spec(self, rhs: BigUint) -> BigUint { arbitrary() }
}
impl Div<BigUint> for &BigUint {
    type Output = BigUint;
//@ stub u_fwd/div_ref_val
}
impl ShlSpecImpl<i32> for &BigUint {
    open spec fn obeys_shl_spec() -> bool { false }
    open spec fn shl_req(self, rhs: i32) -> bool { self.wf() && (!mp() ==> rhs >= 0) }
    open spec fn shl_spec(self, rhs: i32) -> BigUint { arbitrary() }
}
impl Shl<i32> for &BigUint {
    type Output = BigUint;
//@ stub u_shiftops/shl_ref_i32
}
impl AddSpecImpl<BigUint> for BigUint {
    open spec fn obeys_add_spec() -> bool { false }
    open spec fn add_req(self, rhs: BigUint) -> bool { self.wf() && rhs.wf() }
    open spec fn add_spec(self, rhs: BigUint) -> BigUint { arbitrary() }
}
impl Add<BigUint> for BigUint {
    type Output = BigUint;
//@ stub u_fwd/add_val_val
}
impl DivSpecImpl<u32> for BigUint {
    open spec fn obeys_div_spec() -> bool { false }
    open spec fn div_req(self, rhs: u32) -> bool { self.wf() && (!mp() ==> rhs != 0) }
    open spec fn div_spec(self, rhs: u32) -> BigUint { arbitrary() }
}
impl Div<u32> for BigUint {
    type Output = BigUint;
//@ stub u_divscalar/div_u32
}
impl MulSpecImpl<&BigUint> for u32 {
    open spec fn obeys_mul_spec() -> bool { false }
    open spec fn mul_req(self, rhs: &BigUint) -> bool { rhs.wf() }
    open spec fn mul_spec(self, rhs: &BigUint) -> BigUint { arbitrary() }
}
impl Mul<&BigUint> for u32 {
    type Output = BigUint;
//@ stub u_fwd/u32_mul_ref
}
pub open spec fn npow(b: nat, e: nat) -> int { pow(b as int, e) }
impl BigUint {
//@ stub u_pow/pow
}

//@ assume __u64_cbrt : num_integer::Roots::cbrt on u64 (external crate): the floor cube root (rule R3u3)
#[verifier::external_body]
fn __u64_cbrt(x: u64) -> (r: u64)
    ensures is_root(x as nat, 3, r as nat)
{ unimplemented!() }

//@ assume __u64_nth_root : num_integer::Roots::nth_root on u64 (external crate): the floor n-th root, n >= 1 (rule R3un)
#[verifier::external_body]
fn __u64_nth_root(x: u64, n: u32) -> (r: u64)
    requires n >= 1
    ensures is_root(x as nat, n as nat, r as nat)
{ unimplemented!() }

impl BigUint {
//@ extract src/biguint.rs :: impl Roots for BigUint :: fn cbrt rules=R0,R24b,R24c,R3rs,R3u3,R3v,R3w props=C11,C14
    fn cbrt(&self) -> /*+*/(res: /*-*/Self/*+*/)/*-*/
//+{
        requires self.wf()
        ensures res.wf(), is_root(self.v(), 3, res.v())
        decreases self.v()
//+}
    {
//+{
        let ghost a = self.v();
        proof {
            vstd::arithmetic::power::lemma0_pow(3);
            vstd::arithmetic::power::lemma1_pow(3);
            vstd::arithmetic::power::lemma_pow_positive(2, 3);
            lemma_npw(2, 2); lemma_npw(2, 1); lemma_npw(2, 0);
        }
//+}
        if self.is_zero() || self.is_one() {
            return self.clone();
        }

        // If we fit in `u64`, compute the root that way.
        if let Some(x) = self.to_u64() {
            return From::from(__u64_cbrt(x));
        }

        let bits = self.bits();
        let max_bits = bits / 3 + 1;

        let guess = match __float_guess(self) {
            Some(g__) => g__,
            None => {
                // Try to guess by scaling down such that it does fit in `f64`.
                // With some (x * 2³ᵏ), its cbrt ≈ (∛x * 2ᵏ)
//+{
                proof { lemma_big_bits(a, bits as nat); axiom_vec_u64_len(&self.data); lemma_nbits_range(self.data@[self.data@.len() - 1]); }
//+}
                let extra_bits = bits - (1024u64 - 1);
                let root_scale = (extra_bits + 2) / 3;
                let scale = root_scale * 3;
//+{
                proof {
                    lemma_scaled(a, bits as nat, scale as nat);
                    vstd::arithmetic::power2::lemma_pow2_pos(root_scale as nat);
                    assert forall|x: nat, y: nat| x >= 1 && y >= 1 implies #[trigger] (x * y) >= 1 by { assert(x * y >= 1) by (nonlinear_arith) requires x >= 1, y >= 1; }
                }
//+}
                Shl::shl(Shr::shr(self, scale).cbrt(), root_scale)
            }
        };
//+{
        proof { lemma_root_exists(a, 3); }
        let ghost r = choose|r: nat| is_root(a, 3, r);
        proof {
            lemma_root_bounds(a, 3, r, bits as nat, max_bits as nat);
            assert forall|s: nat| s >= 1 implies #[trigger] newton(a, 3, s) >= r by { lemma_newton_lower(a, 3, r, s); }
            assert forall|s: nat| s > r implies #[trigger] newton(a, 3, s) < s by { lemma_newton_decr(a, 3, r, s); }
        }
//+}

        fixpoint(guess, max_bits, move |s/*+*/: &BigUint/*-*/| /*+*/-> (y: BigUint)
            requires s.wf() && s.v() >= 1
            ensures y.wf() && y.v() == newton(a, 3, s.v())
        /*-*/{
//+{
            proof {
                lemma_npw(s.v(), 1); lemma_npw(s.v(), 0);
                assert(s.v() * s.v() >= 1) by (nonlinear_arith) requires s.v() >= 1;
            }
//+}
            let q = Div::div(self, Mul::mul(s, s));
//+{
            proof {
                let m = choose|m: nat| #[trigger] udiv_ok(a, s.v() * s.v(), q.v(), m);
                lemma_udiv_is_div(a, s.v() * s.v(), q.v(), m);
                vstd::arithmetic::power2::lemma2_to64();
            }
//+}
            let t = Add::add(Shl::shl(s, 1), q);
//+{
            let ghost tv = t.v();
//+}
            /*+*/let y = /*-*/t / 3u32/*+*/;
            proof {
                let m = choose|m: nat| #[trigger] udiv_ok(tv, 3, y.v(), m);
                lemma_udiv_is_div(tv, 3, y.v(), m);
                assert(npw(s.v(), 2) == (s.v() * s.v()) as int);
                assert(q.v() == a / (s.v() * s.v()));
                assert(s.v() * p2(1) == 2 * s.v()) by (nonlinear_arith) requires p2(1) == 2;
                assert(tv == 2 * s.v() + q.v());
                assert(y.v() == tv / 3);
            }
            y/*-*/
        }/*+*/, Ghost(|s: nat| newton(a, 3, s)), Ghost(r)/*-*/)
    }
//@ end

//@ extract src/biguint.rs :: impl Roots for BigUint :: fn nth_root rules=R0,R11,R24b,R24c,R3rs,R3os,R3dc,R3un,R3x,R3y props=C11,C14
    fn nth_root(&self, n: u32) -> /*+*/(res: /*-*/Self/*+*/)/*-*/
//+{
        requires self.wf(), !mp() ==> n >= 1
        ensures mp() ==> n >= 1, res.wf(), is_root(self.v(), n as nat, res.v())
        decreases self.v()
//+}
    {
        __assert(n > 0);
//+{
        let ghost a = self.v();
        proof {
            vstd::arithmetic::power::lemma0_pow(n as nat);
            vstd::arithmetic::power::lemma1_pow(n as nat);
            vstd::arithmetic::power::lemma_pow_positive(2, n as nat);
            vstd::arithmetic::power::lemma_pow1(a as int);
            vstd::arithmetic::power::lemma_pow1(a as int + 1);
        }
//+}

        if self.is_zero() || self.is_one() {
//+{
            proof { if a == 1 { lemma_npw_mono(1, 2, n as nat); vstd::arithmetic::power::lemma_pow_strictly_increases(2, 0, n as nat); vstd::arithmetic::power::lemma_pow0(2); } }
//+}
            return self.clone();
        }

        match n {
            // Optimize for small n
            1 => return self.clone(),
            2 => return self.sqrt(),
            3 => return self.cbrt(),
            _ => (),
        }

        // The root of non-zero values less than 2ⁿ can only be 1.
        let bits = self.bits();
        let n64 = u64::from(n);
        if bits <= n64 {
//+{
            proof {
                // 1 <= a < 2^bits <= 2^n
                vstd::arithmetic::power2::lemma_pow2(n as nat);
                if bits < n64 { vstd::arithmetic::power2::lemma_pow2_strictly_increases(bits as nat, n as nat); }
            }
//+}
            return BigUint::one();
        }

        // If we fit in `u64`, compute the root that way.
        if let Some(x) = self.to_u64() {
            return From::from(__u64_nth_root(x, n));
        }

//+{
        proof {
            assert(n >= 4);
            axiom_vec_u64_len(&self.data);
            lemma_nbits_range(self.data@[self.data@.len() - 1]);
            vstd::arithmetic::div_mod::lemma_div_nonincreasing(bits as int, n64 as int);
        }
//+}
        let max_bits = bits / n64 + 1;

        let guess = match __float_guess(self) {
            Some(g__) => g__,
            None => {
                // Try to guess by scaling down such that it does fit in `f64`.
                // With some (x * 2ⁿᵏ), its nth root ≈ (ⁿ√x * 2ᵏ)
//+{
                proof { lemma_big_bits(a, bits as nat); }
//+}
                let extra_bits = bits - (1024u64 - 1);
                let root_scale = __u64_div_ceil(extra_bits, n64);
//+{
                proof {
                    assert((root_scale as nat) * (n64 as nat) < 0x1_0000_0000_0000_0000) by (nonlinear_arith)
                        requires (root_scale as nat) * (n64 as nat) < extra_bits as nat + n64 as nat, extra_bits < 0x8000_0000_0000_0000u64, n64 < 0x1_0000_0000u64;
                    assert(root_scale >= 1) by (nonlinear_arith) requires (root_scale as nat) * (n64 as nat) >= extra_bits as nat, extra_bits >= 1;
                    assert((root_scale as nat) * (n64 as nat) >= 1) by (nonlinear_arith) requires root_scale >= 1, n64 >= 1;
                }
//+}
                let scale = root_scale * n64;
                if scale < bits && bits - scale > n64 {
//+{
                    proof {
                        lemma_scaled(a, bits as nat, scale as nat);
                        vstd::arithmetic::power2::lemma_pow2_pos(root_scale as nat);
                        assert forall|x: nat, y: nat| x >= 1 && y >= 1 implies #[trigger] (x * y) >= 1 by { assert(x * y >= 1) by (nonlinear_arith) requires x >= 1, y >= 1; }
                    }
//+}
                    Shl::shl(Shr::shr(self, scale).nth_root(n), root_scale)
                } else {
//+{
                    proof {
                        vstd::arithmetic::power2::lemma_pow2_pos(max_bits as nat);
                        assert(1 * p2(max_bits as nat) == p2(max_bits as nat)) by (nonlinear_arith);
                    }
//+}
                    Shl::shl(BigUint::one(), max_bits)
                }
            }
        };
//+{
        proof { lemma_root_exists(a, n as nat); }
        let ghost r = choose|r: nat| is_root(a, n as nat, r);
        proof {
            vstd::arithmetic::div_mod::lemma_fundamental_div_mod(bits as int, n as int);
            vstd::arithmetic::div_mod::lemma_mod_bound(bits as int, n as int);
            assert((n as nat) * (max_bits as nat) >= bits as nat) by (nonlinear_arith)
                requires max_bits as nat == (bits as nat) / (n as nat) + 1, n >= 1, (bits as nat) == (n as nat) * ((bits as nat) / (n as nat)) + (bits as nat) % (n as nat), (bits as nat) % (n as nat) < n as nat;
            lemma_root_bounds(a, n as nat, r, bits as nat, max_bits as nat);
            assert forall|s: nat| s >= 1 implies #[trigger] newton(a, n as nat, s) >= r by { lemma_newton_lower(a, n as nat, r, s); }
            assert forall|s: nat| s > r implies #[trigger] newton(a, n as nat, s) < s by { lemma_newton_decr(a, n as nat, r, s); }
        }
//+}

        let n_min_1 = n - 1;
        fixpoint(guess, max_bits, move |s/*+*/: &BigUint/*-*/| /*+*/-> (y: BigUint)
            requires s.wf() && s.v() >= 1
            ensures y.wf() && y.v() == newton(a, n as nat, s.v())
        /*-*/{
//+{
            proof { lemma_npw(s.v(), n_min_1 as nat); }
//+}
            let q = Div::div(self, s.pow(n_min_1));
//+{
            proof {
                let c = npw(s.v(), n_min_1 as nat) as nat;
                let m = choose|m: nat| #[trigger] udiv_ok(a, c, q.v(), m);
                lemma_udiv_is_div(a, c, q.v(), m);
            }
//+}
            let t = Add::add(Mul::mul(n_min_1, s), q);
//+{
            let ghost tv = t.v();
//+}
            /*+*/let y = /*-*/t / n/*+*/;
            proof {
                let m = choose|m: nat| #[trigger] udiv_ok(tv, n as nat, y.v(), m);
                lemma_udiv_is_div(tv, n as nat, y.v(), m);
            }
            y/*-*/
        }/*+*/, Ghost(|s: nat| newton(a, n as nat, s)), Ghost(r)/*-*/)
    }
//@ end
}

} // mod u
} // verus!
fn main() {}
