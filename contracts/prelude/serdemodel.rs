// Local model of the serde data model (external crate) as far as src/biguint/serde.rs and src/bigint/serde.rs use it.
// A serializer is consumed by value and answers with its `Ok` value; the model's Ok value carries, as ghost state, the
// tokens that were written. A sequence access carries the u32 elements still to be delivered. Errors are opaque and may
// occur at any call (nothing is promised on the error path).
pub struct SerErr;
pub struct DeErr;
/// what a serializer has been asked to write
pub enum SerTok {
    /// a sequence with the announced length and the u32 elements written before `end`
    SeqU32(Option<usize>, Seq<u32>),
    /// one i8
    I8(i8),
    /// a tuple of the given arity followed by its elements' tokens
    Tuple(nat),
}
//@ assume MSer : model type standing for an arbitrary serde::Serializer (opaque state, consumed by value)
#[verifier::external_body]
pub struct MSer { _p: () }
//@ assume MOk : model of <S as Serializer>::Ok: the tokens written, as ghost state
#[verifier::external_body]
pub struct MOk { _p: () }
impl MOk {
    pub uninterp spec fn toks(&self) -> Seq<SerTok>;
}
//@ assume MSeq : model of <S as Serializer>::SerializeSeq (opaque state)
#[verifier::external_body]
pub struct MSeq { _p: () }
impl MSeq {
    pub uninterp spec fn announced(&self) -> Option<usize>;
    pub uninterp spec fn elems(&self) -> Seq<u32>;
    //@ assume SerializeSeq::serialize_element(&u32) : serde: appends one element to the sequence being written (or fails)
    #[verifier::external_body]
    pub fn serialize_element(&mut self, v: &u32) -> (r: Result<(), SerErr>)
        ensures r is Ok ==> final(self).elems() == old(self).elems().push(*v) && final(self).announced() == old(self).announced()
    { unimplemented!() }
    //@ assume SerializeSeq::end : serde: finishes the sequence; the serializer's Ok value stands for what was written
    #[verifier::external_body]
    pub fn end(self) -> (r: Result<MOk, SerErr>)
        ensures r is Ok ==> r->Ok_0.toks() == seq![SerTok::SeqU32(self.announced(), self.elems())]
    { unimplemented!() }
}
impl MSer {
    //@ assume Serializer::serialize_seq : serde: starts a sequence with an optional length announcement
    #[verifier::external_body]
    pub fn serialize_seq(self, len: Option<usize>) -> (r: Result<MSeq, SerErr>)
        ensures r is Ok ==> r->Ok_0.announced() == len && r->Ok_0.elems() == Seq::<u32>::empty()
    { unimplemented!() }
}
//@ assume [u32]::serialize : serde's impl for slices: a sequence announced with its length, one element per item, in order
#[verifier::external_body]
pub fn __serialize_u32_slice(data: &[u32], serializer: MSer) -> (r: Result<MOk, SerErr>)
    ensures r is Ok ==> r->Ok_0.toks() == seq![SerTok::SeqU32(Some(data@.len() as usize), data@)]
{ unimplemented!() }
//@ assume i8::serialize : serde's impl for i8: one i8 token
#[verifier::external_body]
pub fn __serialize_i8(v: i8, serializer: MSer) -> (r: Result<MOk, SerErr>)
    ensures r is Ok ==> r->Ok_0.toks() == seq![SerTok::I8(v)]
{ unimplemented!() }

//@ assume MSeqAcc : model type standing for an arbitrary serde::de::SeqAccess delivering u32 elements (opaque state)
#[verifier::external_body]
pub struct MSeqAcc { _p: () }
impl MSeqAcc {
    /// the elements still to be delivered
    pub uninterp spec fn rest(&self) -> Seq<u32>;
    //@ assume SeqAccess::size_hint : serde: any value (a hint only)
    #[verifier::external_body]
    pub fn size_hint(&self) -> (r: Option<usize>)
    { unimplemented!() }
    //@ assume SeqAccess::next_element::<u32> : serde: the next element, None at the end of the sequence, or an error
    #[verifier::external_body]
    pub fn next_element_u32(&mut self) -> (r: Result<Option<u32>, DeErr>)
        ensures
            r is Ok && r->Ok_0 is Some ==> old(self).rest().len() > 0 && r->Ok_0->Some_0 == old(self).rest()[0] && final(self).rest() == old(self).rest().drop_first(),
            r is Ok && r->Ok_0 is None ==> old(self).rest().len() == 0 && final(self).rest() == old(self).rest(),
    { unimplemented!() }
}
//@ assume MDe : model type standing for an arbitrary serde::Deserializer (opaque state, consumed by value)
#[verifier::external_body]
pub struct MDe { _p: () }
impl MDe {
    /// the i8 the input holds next (meaningful when an i8 is read successfully)
    pub uninterp spec fn next_i8(&self) -> i8;
}
//@ assume i8::deserialize : serde's impl for i8: the next i8 of the input, or an error
#[verifier::external_body]
pub fn __deserialize_i8(deserializer: MDe) -> (r: Result<i8, DeErr>)
    ensures r is Ok ==> r->Ok_0 == deserializer.next_i8()
{ unimplemented!() }
//@ assume de::Error::invalid_value : serde: builds an error value
#[verifier::external_body]
pub fn __invalid_sign(sign: i8) -> (r: DeErr)
{ unimplemented!() }
