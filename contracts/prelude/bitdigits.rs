// digit-level view of the infinite binary expansion of a non-negative integer: digit i of s, zero beyond the end
pub open spec fn dig(s: Seq<u64>, i: int) -> u64 { if 0 <= i < s.len() { s[i] } else { 0u64 } }

pub proof fn lemma_bit_facts(x: u64, y: u64)
    ensures 0u64 & x == 0, x & 0u64 == 0, x | 0u64 == x, 0u64 | x == x, x ^ 0u64 == x, 0u64 ^ x == x,
        0u64 & y == 0, y & 0u64 == 0, y | 0u64 == y, 0u64 | y == y, y ^ 0u64 == y, 0u64 ^ y == y,
        x != 0 ==> (x | y) != 0, x != 0 ==> (y | x) != 0,
{
    assert(0u64 & x == 0 && x & 0u64 == 0 && x | 0u64 == x && 0u64 | x == x && x ^ 0u64 == x && 0u64 ^ x == x) by (bit_vector);
    assert(0u64 & y == 0 && y & 0u64 == 0 && y | 0u64 == y && 0u64 | y == y && y ^ 0u64 == y && 0u64 ^ y == y) by (bit_vector);
    assert(x != 0 ==> (x | y) != 0) by (bit_vector);
    assert(x != 0 ==> (y | x) != 0) by (bit_vector);
}

/// a wf non-zero number OR-ed digit-wise with anything is non-zero (wf result)
pub proof fn lemma_or_nonzero(a: Seq<u64>, b: Seq<u64>, f: Seq<u64>)
    requires wf(a), wf(f), a.len() > 0, forall|i: int| 0 <= i ==> dig(f, i) == dig(a, i) | dig(b, i)
    ensures f.len() > 0, val(f) > 0
{
    let t = a.len() - 1;
    lemma_bit_facts(a[t], dig(b, t));
    assert(dig(f, t) == dig(a, t) | dig(b, t));
    assert(dig(f, t) != 0);
    lemma_wf_lower(f);
}
