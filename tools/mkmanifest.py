#!/usr/bin/env python3
"""Regenerate MANIFEST.json from contracts/props.json (single source of truth for what is claimed)."""
import json, os
ROOT = os.path.dirname(os.path.dirname(os.path.abspath(__file__)))
props = json.load(open(os.path.join(ROOT, "contracts", "props.json")))
ids = [json.loads(l)["id"] for l in open(os.path.join(ROOT, "properties.jsonl"))]
checks, na = [], []
for pid in ids:
    sp = props.get(pid)
    if not sp or sp.get("not_applicable"):
        na.append({"property_id": pid, "reason": (sp or {}).get("not_applicable") or "no check built yet in this round (see DESIGN.md section 7 for the plan)"})
        continue
    checks.append({
        "property_id": pid,
        "quick_cmd": "./check %s --tier quick" % pid,
        "thorough_cmd": "./check %s --tier thorough" % pid,
        "evidence_file": "evidence/%s.json" % pid,
        "replay_cmd_template": "./check replay {path}",
        "engine": sp.get("engine_text", "verus-weave"),
        "level_claimed": {"category": sp.get("level", "proof"), "text": sp["claim"], "design_ref": sp.get("design_ref", "DESIGN.md section 7 / %s" % pid)},
        "level_note": sp["note"],
        "technique": sp.get("technique", "contract-based deductive verification (Verus) of the real functions, re-extracted and woven on every run"),
    })
m = {
    "version": 1,
    "setup_cmd": "./setup.sh",
    "hooks": {"guard": "num_bigint_verif", "enable": "none needed: contracts are woven into text extracted from /repo's working tree; no source hook exists",
              "baseline_off_cmd": "cd /repo && cargo test --workspace --no-fail-fast --offline", "source_commits": [], "add_only": True},
    "engines": [
        {"name": "verus-weave", "path": "tools/unit.py, tools/rtok.py, contracts/", "serves_properties": [c["property_id"] for c in checks],
         "kind_free_text": "extracts the real functions from /repo, applies logged mechanical rewrite rules, transplants the committed annotations, runs Verus per unit; canary per function"},
        {"name": "asm-vc", "path": "tools/asmvc.py", "serves_properties": [p for p in ids if "asm" in (props.get(p) or {}).get("engines", [])],
         "kind_free_text": "symbolic execution of the asm! template text over z3; loop invariant for an unbounded block count; asm! operand-class rules"},
        {"name": "forwarding-vc", "path": "tools/fwd.py", "serves_properties": [p for p in ids if "fwd" in (props.get(p) or {}).get("engines", [])],
         "kind_free_text": "one VC per macro-generated forwarding impl taken from rustc's own expansion, uninterpreted op, z3"},
        {"name": "kani", "path": "tools/kanirun.py, contracts/kani/", "serves_properties": [p for p in ids if any(e.startswith("kani:") for e in (props.get(p) or {}).get("engines", []))],
         "kind_free_text": "loop-free full-domain harnesses (complete) and bounded stand-ins (labelled) appended to a scratch copy of the crate"},
        {"name": "replay", "path": "tools/replay.py, replay/driver", "serves_properties": [c["property_id"] for c in checks],
         "kind_free_text": "after a failed obligation only: searches a failing public-API input against the real crate (Python integers as oracle)"},
    ],
    "checks": checks,
    "not_applicable": na,
    "notes": "exit 0 pass / 1 VIOLATION / 2 UNDECIDED (tool limit, lost anchor, rlimit: never an alarm). Assumptions are listed per run in evidence/<id>.json.",
}
json.dump(m, open(os.path.join(ROOT, "MANIFEST.json"), "w"), indent=1)
print("checks:", [c["property_id"] for c in checks], "n/a:", [x["property_id"] for x in na])
