// View of BigUint: the natural number denoted by its digit vector, and the representation invariant.
impl BigUint {
    pub closed spec fn v(&self) -> nat { val(self.data@) }
    pub closed spec fn wf(&self) -> bool { wf(self.data@) }
    /// digit sequence (for contracts of `pub` functions, which may not mention the private field)
    pub closed spec fn dg(&self) -> Seq<u64> { self.data@ }
}

/// stripping most-significant zeros keeps the value
pub proof fn lemma_val_strip(s: Seq<u64>, k: nat)
    requires k <= s.len(), forall|j: int| k <= j < s.len() ==> s[j] == 0
    ensures val(s.subrange(0, k as int)) == val(s)
    decreases s.len() - k
{
    if k < s.len() {
        let t = s.drop_last();
        lemma_val_drop_last_zero(s);
        lemma_val_strip(t, k);
        assert(t.subrange(0, k as int) =~= s.subrange(0, k as int));
    } else {
        assert(s.subrange(0, k as int) =~= s);
    }
}
