//@ unit u_iter : the u32 and u64 digit iterators over 64-bit digits as exact-size double-ended iterators; to_u32_digits / to_u64_digits (src/biguint/iter.rs, src/biguint.rs)
#![feature(allocator_api)]
use vstd::prelude::*;
use vstd::std_specs::iter::IteratorSpec;
verus! {
//@ include prelude/core.rs
//@ include prelude/std_specs.rs
//@ include prelude/sliceiter.rs
//@ extract src/bigint.rs :: enum Sign attrs=1
#[derive(/*+*/Structural, /*-*/PartialEq, PartialOrd, Eq, Ord, Copy, Clone, Debug, Hash)]
pub enum Sign {
    Minus,
    NoSign,
    Plus,
}
//@ end
pub mod u {
use super::*;

//@ extract src/biguint/iter.rs :: struct U32Digits
pub struct U32Digits<'a> {
    data: &'a [u64],
    next_is_lo: bool,
    last_hi_is_zero: bool,
}
//@ end

pub open spec fn lo32(d: u64) -> u32 { d as u32 }
pub open spec fn hi32(d: u64) -> u32 { (d >> 32) as u32 }

/// all base-2^32 digits of the 64-bit digit sequence, least significant first (2 per digit)
pub open spec fn full32(d: Seq<u64>) -> Seq<u32> {
    Seq::new(2 * d.len(), |i: int| if i % 2 == 0 { lo32(d[i / 2]) } else { hi32(d[i / 2]) })
}

impl<'a> U32Digits<'a> {
    pub closed spec fn start(&self) -> int { if self.next_is_lo { 0 } else { 1 } }
    pub closed spec fn end(&self) -> int { 2 * self.data@.len() - (if self.last_hi_is_zero { 1int } else { 0int }) }
    /// representation invariant of the iterator state
    pub closed spec fn inv(&self) -> bool {
        self.start() <= self.end() && (self.data@.len() == 0 ==> self.next_is_lo && !self.last_hi_is_zero) && self.data@.len() < 0x4000_0000_0000_0000
    }
    /// the digits that remain to be yielded
    pub closed spec fn view(&self) -> Seq<u32> { full32(self.data@).subrange(self.start(), self.end()) }
}

impl<'a> U32Digits<'a> {
//@ extract src/biguint/iter.rs :: impl<'a> U32Digits<'a> :: fn new rules=R0,R4 props=C09
    pub(super) fn new(data: &'a [u64]) -> /*+*/(r: /*-*/Self/*+*/)/*-*/
//+{
        requires data@.len() < 0x4000_0000_0000_0000
        ensures r.inv(),
            r.view() == full32(data@).subrange(0, 2 * data@.len() - (if data@.len() > 0 && hi32(data@[data@.len() - 1]) == 0 { 1int } else { 0int })),
//+}
    {
        let last_hi_is_zero = data
            .last()
            .map(|x_r__| /*+*/-> (b: bool) ensures b == (hi32(*x_r__) == 0) /*-*/{ let last = *x_r__ ; {
                let last_hi = (last >> 32) as u32;
                last_hi == 0
            } })
            .unwrap_or(false);
        U32Digits {
            data,
            next_is_lo: true,
            last_hi_is_zero,
        }
    }
//@ end

    // contract-only re-homing of `impl Iterator / DoubleEndedIterator / ExactSizeIterator for U32Digits<'_>` (64-bit digit variant)
//@ extract src/biguint/iter.rs :: impl Iterator for U32Digits<'_> :: fn next rules=R0,R2b props=C09
    fn next(&mut self) -> /*+*/(r: /*-*/Option<u32>/*+*/)/*-*/
//+{
        requires old(self).inv()
        ensures final(self).inv(),
            old(self).view().len() == 0 ==> r is None && final(self).view().len() == 0,
            old(self).view().len() > 0 ==> r == Some(old(self).view()[0]) && final(self).view() =~= old(self).view().drop_first(),
//+}
    {
        match self.data.split_first() {
            Some((x_r__, data)) => { let first = *x_r__ ;
//+{
                proof { lemma_full32_shift(self.data@); }
//+}
                let next_is_lo = self.next_is_lo;
                self.next_is_lo = !next_is_lo;
                if next_is_lo {
                    Some(first as u32)
                } else {
                    self.data = data;
                    if data.is_empty() && self.last_hi_is_zero {
                        self.last_hi_is_zero = false;
                        None
                    } else {
                        Some((first >> 32) as u32)
                    }
                }
            }
            None => None,
        }
    }
//@ end

//@ extract src/biguint/iter.rs :: impl DoubleEndedIterator for U32Digits<'_> :: fn next_back rules=R0,R2b tysub=Self::Item=>u32 props=C09
    fn next_back(&mut self) -> /*+*/(r: /*-*/Option<u32>/*+*/)/*-*/
//+{
        requires old(self).inv()
        ensures final(self).inv(),
            old(self).view().len() == 0 ==> r is None && final(self).view().len() == 0,
            old(self).view().len() > 0 ==> r == Some(old(self).view().last()) && final(self).view() =~= old(self).view().drop_last(),
//+}
    {
        match self.data.split_last() {
            Some((x_r__, data)) => { let last = *x_r__ ;
//+{
                proof { lemma_full32_prefix(self.data@); }
//+}
                let last_is_lo = self.last_hi_is_zero;
                self.last_hi_is_zero = !last_is_lo;
                if last_is_lo {
                    self.data = data;
                    if data.is_empty() && !self.next_is_lo {
                        self.next_is_lo = true;
                        None
                    } else {
                        Some(last as u32)
                    }
                } else {
                    Some((last >> 32) as u32)
                }
            }
            None => None,
        }
    }
//@ end

//@ extract src/biguint/iter.rs :: impl ExactSizeIterator for U32Digits<'_> :: fn len props=C09
    fn len(&self) -> /*+*/(r: /*-*/usize/*+*/)/*-*/
//+{
        requires self.inv()
        ensures r == self.view().len()
//+}
    {
//+{
        proof { assert(self.data@.len() < 0x4000_0000_0000_0000); assert(self.data.len() == self.data@.len()); }
//+}
        self.data.len() * 2
            - usize::from(self.last_hi_is_zero)
            - usize::from(!self.next_is_lo)
    }
//@ end

//@ extract src/biguint/iter.rs :: impl Iterator for U32Digits<'_> :: fn size_hint rules=R0 props=C09
    fn size_hint(&self) -> /*+*/(r: /*-*/(usize, Option<usize>)/*+*/)/*-*/
//+{
        requires self.inv()
        ensures r.0 == self.view().len(), r.1 == Some(self.view().len() as usize)
//+}
    {
        let len = self.len();
        (len, Some(len))
    }
//@ end

//@ extract src/biguint/iter.rs :: impl Iterator for U32Digits<'_> :: fn count rules=R0,R5 props=C09
    fn count(self) -> /*+*/(r: /*-*/usize/*+*/)/*-*/
//+{
        requires self.inv()
        ensures r == self.view().len()
//+}
    {
        self.len()
    }
//@ end

//@ extract src/biguint/iter.rs :: impl Iterator for U32Digits<'_> :: fn last rules=R0,R5 props=C09
    fn last(self) -> /*+*/(r: /*-*/Option<u32>/*+*/)/*-*/
//+{
        requires self.inv()
        ensures self.view().len() == 0 ==> r is None,
            self.view().len() > 0 ==> r == Some(self.view().last()),
//+}
    {
        let mut self__ = self;
        self__.next_back()
    }
//@ end
}

pub proof fn lemma_full32_shift(d: Seq<u64>)
    requires d.len() > 0
    ensures full32(d.subrange(1, d.len() as int)) =~= full32(d).subrange(2, 2 * d.len() as int),
        full32(d)[0] == lo32(d[0]), full32(d)[1] == hi32(d[0]), full32(d).len() == 2 * d.len(),
{
    let t = d.subrange(1, d.len() as int);
    assert forall|i: int| 0 <= i < 2 * t.len() implies full32(t)[i] == full32(d)[i + 2] by {
        assert((i + 2) / 2 == i / 2 + 1);
        assert((i + 2) % 2 == i % 2);
    }
}

pub proof fn lemma_full32_prefix(d: Seq<u64>)
    requires d.len() > 0
    ensures full32(d.subrange(0, d.len() - 1)) =~= full32(d).subrange(0, 2 * d.len() - 2),
        full32(d)[2 * d.len() - 2] == lo32(d[d.len() - 1]), full32(d)[2 * d.len() - 1] == hi32(d[d.len() - 1]), full32(d).len() == 2 * d.len(),
{
    let n = d.len() as int;
    assert((2 * n - 2) / 2 == n - 1 && (2 * n - 2) % 2 == 0);
    assert((2 * n - 1) / 2 == n - 1 && (2 * n - 1) % 2 == 1);
}

//@ extract src/biguint/iter.rs :: struct U64Digits
pub struct U64Digits<'a> {
    it: core::slice::Iter<'a, u64>,
}
//@ end

impl<'a> U64Digits<'a> {
    /// the digits that remain to be yielded
    #[verifier::prophetic]
    pub closed spec fn view(&self) -> Seq<u64> { self.it.remaining().map_values(|r: &u64| *r) }
}

impl<'a> U64Digits<'a> {
//@ extract src/biguint/iter.rs :: impl<'a> U64Digits<'a> :: fn new rules=R0 props=C09 label=u64digits_new
    pub(super) fn new(data: &'a [u64]) -> /*+*/(r: /*-*/Self/*+*/)/*-*/
//+{
        ensures r.view() =~= data@
//+}
    {
        Self { it: data.iter() }
    }
//@ end

    // contract-only re-homing of `impl Iterator / DoubleEndedIterator / ExactSizeIterator for U64Digits<'_>` (64-bit digit variant)
//@ extract src/biguint/iter.rs :: impl Iterator for U64Digits<'_> :: fn next rules=R0 props=C09 label=u64digits_next
    fn next(&mut self) -> /*+*/(r: /*-*/Option<u64>/*+*/)/*-*/
//+{
        ensures
            old(self).view().len() == 0 ==> r is None && final(self).view().len() == 0,
            old(self).view().len() > 0 ==> r == Some(old(self).view()[0]) && final(self).view() =~= old(self).view().drop_first(),
//+}
    {
        self.it.next().cloned()
    }
//@ end

//@ extract src/biguint/iter.rs :: impl Iterator for U64Digits<'_> :: fn size_hint rules=R0 props=C09 label=u64digits_size_hint
    fn size_hint(&self) -> /*+*/(r: /*-*/(usize, Option<usize>)/*+*/)/*-*/
//+{
        ensures r.0 == self.view().len(), r.1 == Some(self.view().len() as usize)
//+}
    {
        self.it.size_hint()
    }
//@ end

//@ extract src/biguint/iter.rs :: impl Iterator for U64Digits<'_> :: fn nth rules=R0 props=C09 label=u64digits_nth
    fn nth(&mut self, n: usize) -> /*+*/(r: /*-*/Option<u64>/*+*/)/*-*/
//+{
        ensures
            n < old(self).view().len() ==> r == Some(old(self).view()[n as int]) && final(self).view() =~= old(self).view().subrange(n as int + 1, old(self).view().len() as int),
            n >= old(self).view().len() ==> r is None && final(self).view().len() == 0,
//+}
    {
        self.it.nth(n).cloned()
    }
//@ end

//@ extract src/biguint/iter.rs :: impl Iterator for U64Digits<'_> :: fn last rules=R0 props=C09 label=u64digits_last
    fn last(self) -> /*+*/(r: /*-*/Option<u64>/*+*/)/*-*/
//+{
        ensures self.view().len() == 0 ==> r is None,
            self.view().len() > 0 ==> r == Some(self.view().last()),
//+}
    {
        self.it.last().cloned()
    }
//@ end

//@ extract src/biguint/iter.rs :: impl Iterator for U64Digits<'_> :: fn count rules=R0 props=C09 label=u64digits_count
    fn count(self) -> /*+*/(r: /*-*/usize/*+*/)/*-*/
//+{
        ensures r == self.view().len()
//+}
    {
        self.it.count()
    }
//@ end

//@ extract src/biguint/iter.rs :: impl DoubleEndedIterator for U64Digits<'_> :: fn next_back rules=R0 tysub=Self::Item=>u64 props=C09 label=u64digits_next_back
    fn next_back(&mut self) -> /*+*/(r: /*-*/Option<u64>/*+*/)/*-*/
//+{
        ensures
            old(self).view().len() == 0 ==> r is None && final(self).view().len() == 0,
            old(self).view().len() > 0 ==> r == Some(old(self).view().last()) && final(self).view() =~= old(self).view().drop_last(),
//+}
    {
        self.it.next_back().cloned()
    }
//@ end

//@ extract src/biguint/iter.rs :: impl ExactSizeIterator for U64Digits<'_> :: fn len props=C09 label=u64digits_len
    fn len(&self) -> /*+*/(r: /*-*/usize/*+*/)/*-*/
//+{
        ensures r == self.view().len()
//+}
    {
        self.it.len()
    }
//@ end
}

//@ extract src/biguint.rs :: struct BigUint
pub struct BigUint {
    data: Vec<BigDigit>,
}
//@ end

//@ include prelude/biguint_view.rs
/// the base-2^32 digits of a digit vector: both halves of every digit, without a zero top half of the last one
pub open spec fn digits32(d: Seq<u64>) -> Seq<u32> {
    full32(d).subrange(0, 2 * d.len() - (if d.len() > 0 && hi32(d[d.len() - 1]) == 0 { 1int } else { 0int }))
}

impl BigUint {
//@ extract src/biguint.rs :: impl BigUint :: fn iter_u32_digits props=C09
    pub fn iter_u32_digits(&self) -> /*+*/(r: /*-*/U32Digits<'_>/*+*/)/*-*/
//+{
        ensures r.inv(), r.view() == digits32(self.dg())
//+}
    {
//+{
        proof { axiom_vec_u64_len(&self.data); }
//+}
        U32Digits::new(self.data.as_slice())
    }
//@ end

//@ extract src/biguint.rs :: impl BigUint :: fn to_u32_digits rules=R0,R45 props=C09
    pub fn to_u32_digits(&self) -> /*+*/(r: /*-*/Vec<u32>/*+*/)/*-*/
//+{
        ensures r@ =~= digits32(self.dg())
//+}
    {
        { let mut it__ = self.iter_u32_digits(); let mut v__ = Vec::new(); loop
//+{
            invariant it__.inv(), v__@ + it__.view() =~= digits32(self.data@)
            ensures v__@ =~= digits32(self.data@)
            decreases it__.view().len()
//+}
        { match it__.next() { Some(x__) => v__.push(x__), None => break, } } v__ }
    }
//@ end

//@ extract src/biguint.rs :: impl BigUint :: fn iter_u64_digits props=C09
    pub fn iter_u64_digits(&self) -> /*+*/(r: /*-*/U64Digits<'_>/*+*/)/*-*/
//+{
        ensures r.view() == self.dg()
//+}
    {
        U64Digits::new(self.data.as_slice())
    }
//@ end

//@ extract src/biguint.rs :: impl BigUint :: fn to_u64_digits rules=R0,R45 props=C09
    pub fn to_u64_digits(&self) -> /*+*/(r: /*-*/Vec<u64>/*+*/)/*-*/
//+{
        ensures r@ =~= self.dg()
//+}
    {
        { let mut it__ = self.iter_u64_digits(); let mut v__ = Vec::new(); loop
//+{
            invariant v__@ + it__.view() =~= self.data@
            ensures v__@ =~= self.data@
            decreases self.data@.len() - v__@.len()
//+}
        { match it__.next() { Some(x__) => v__.push(x__), None => break, } } v__ }
    }
//@ end
}

//@ extract src/bigint.rs :: struct BigInt
pub struct BigInt {
    sign: Sign,
    data: BigUint,
}
//@ end
//@ include prelude/bigint_view.rs

impl BigInt {
//@ extract src/bigint.rs :: impl BigInt :: fn to_u32_digits props=C09 label=BigInt_to_u32_digits
    pub fn to_u32_digits(&self) -> /*+*/(r: /*-*/(Sign, Vec<u32>)/*+*/)/*-*/
//+{
        ensures r.0 == self.sg(), r.1@ =~= digits32(self.mag().dg())
//+}
    {
        (self.sign, self.data.to_u32_digits())
    }
//@ end

//@ extract src/bigint.rs :: impl BigInt :: fn to_u64_digits props=C09 label=BigInt_to_u64_digits
    pub fn to_u64_digits(&self) -> /*+*/(r: /*-*/(Sign, Vec<u64>)/*+*/)/*-*/
//+{
        ensures r.0 == self.sg(), r.1@ =~= self.mag().dg()
//+}
    {
        (self.sign, self.data.to_u64_digits())
    }
//@ end

//@ extract src/bigint.rs :: impl BigInt :: fn iter_u32_digits props=C09 label=BigInt_iter_u32_digits
    pub fn iter_u32_digits(&self) -> /*+*/(r: /*-*/U32Digits<'_>/*+*/)/*-*/
//+{
        ensures r.inv(), r.view() == digits32(self.mag().dg())
//+}
    {
        self.data.iter_u32_digits()
    }
//@ end

//@ extract src/bigint.rs :: impl BigInt :: fn iter_u64_digits props=C09 label=BigInt_iter_u64_digits
    pub fn iter_u64_digits(&self) -> /*+*/(r: /*-*/U64Digits<'_>/*+*/)/*-*/
//+{
        ensures r.view() == self.mag().dg()
//+}
    {
        self.data.iter_u64_digits()
    }
//@ end
}

} // mod u
} // verus!
fn main() {}
