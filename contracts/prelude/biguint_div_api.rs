// BigUint division API as seen by BigInt-level units: contracts proved in unit u_divapi
pub open spec fn udiv_ok(a: nat, b: nat, q: nat, m: nat) -> bool { a == q * b + m && m < b }
impl BigUint {
//@ stub u_divapi/div_rem
//@ stub u_divapi/div_mod_floor
//@ stub u_divapi/mod_floor
}
