//@ unit u_ctor : BigUint constructors from base-2^32 digits: u32_chunk_to_u64, assign_from_slice, from_slice, new (src/biguint.rs)
#![feature(allocator_api)]
use vstd::prelude::*;
use vstd::std_specs::iter::IteratorSpec;
verus! {
//@ include prelude/core.rs
//@ include prelude/std_specs.rs
//@ include prelude/val32.rs
pub mod u {
use super::*;

//@ extract src/biguint.rs :: struct BigUint
pub struct BigUint {
    data: Vec<BigDigit>,
}
//@ end
//@ include prelude/biguint_view.rs
impl BigUint {
//@ extract src/biguint.rs :: impl BigUint :: const ZERO rules=R9,R13 label=BigUint_ZERO
    exec const ZERO: Self /*+*/ensures Self::ZERO.data@.len() == 0 /*-*/{ BigUint { data: Vec::new() } }
//@ end
//@ stub u_core/normalize
}

/// value of u32 digits, appending one pair (or a final single digit) at the top
pub proof fn lemma_val32_append(s: Seq<u32>, t: Seq<u32>)
    ensures val32(s + t) == val32(s) + pw32(s.len()) * val32(t)
    decreases s.len()
{
    if s.len() == 0 {
        assert(s + t =~= t);
        assert(pw32(0) * val32(t) == val32(t)) by (nonlinear_arith) requires pw32(0) == 1;
    } else {
        let u = s + t;
        assert(u.subrange(1, u.len() as int) =~= s.subrange(1, s.len() as int) + t);
        lemma_val32_append(s.subrange(1, s.len() as int), t);
        let st = s.subrange(1, s.len() as int);
        assert(val32(u) == (u[0] as nat) + B32() * val32(u.subrange(1, u.len() as int)));
        assert(val32(s) == (s[0] as nat) + B32() * val32(st));
        assert(pw32(s.len()) == B32() * pw32(st.len()));
        assert(B32() * (val32(st) + pw32(st.len()) * val32(t)) == B32() * val32(st) + (B32() * pw32(st.len())) * val32(t)) by (nonlinear_arith);
    }
}
pub open spec fn pw32(k: nat) -> nat
    decreases k
{
    if k == 0 { 1 } else { B32() * pw32((k - 1) as nat) }
}
pub proof fn lemma_pw32_pw(k: nat)
    ensures pw32(2 * k) == pw(k)
    decreases k
{
    if k > 0 {
        lemma_pw32_pw((k - 1) as nat);
        assert(pw32(2 * k) == B32() * pw32((2 * k - 1) as nat));
        assert(pw32((2 * k - 1) as nat) == B32() * pw32((2 * k - 2) as nat));
        assert(B32() * (B32() * pw32((2 * k - 2) as nat)) == B() * pw32((2 * k - 2) as nat)) by (nonlinear_arith) requires B32() * B32() == B();
    }
}

//@ extract src/biguint.rs :: fn u32_chunk_to_u64 rules=R0,R2c props=C09,C04
fn u32_chunk_to_u64(chunk: &[u32]) -> /*+*/(r: /*-*/u64/*+*/)/*-*/
//+{
    requires 1 <= chunk.len() <= 2
    ensures r as nat == val32(chunk@)
//+}
{
//+{
    proof {
        let s = chunk@;
        let t = s.subrange(1, s.len() as int);
        assert(val32(s) == (s[0] as nat) + B32() * val32(t));
        if s.len() == 2 {
            assert(val32(t) == (t[0] as nat) + B32() * val32(t.subrange(1, 1)));
            assert(val32(t.subrange(1, 1)) == 0);
            let lo = s[0] as u64; let hi = s[1] as u64;
            assert(lo <= 0xffff_ffffu64 && hi <= 0xffff_ffffu64 ==> (lo | (hi << 32u64)) == lo + hi * 0x1_0000_0000u64) by (bit_vector);
        } else {
            assert(val32(t) == 0);
        }
    }
//+}
    // raw could have odd length
    let mut digit = chunk[0] as u64;
    if let Some(x_r__) = chunk.get(1) { let hi = *x_r__;
        digit |= (hi as u64) << 32;
    }
    digit
}
//@ end

impl BigUint {
//@ extract src/biguint.rs :: impl BigUint :: fn assign_from_slice rules=R0,R0d,R25 props=C09,C04
    pub fn assign_from_slice(&mut self, slice: &[u32])
//+{
        ensures final(self).wf(), final(self).v() == val32(slice@)
//+}
    {
        self.data.clear();

        { let mut i__ = 0 ; while i__ < slice.len()
//+{
            invariant
                i__ <= slice.len(), i__ % 2 == 0 || i__ == slice.len(),
                self.data@.len() == (i__ + 1) / 2,
                val(self.data@) == val32(slice@.subrange(0, i__ as int)),
            decreases slice.len() - i__
//+}
        { let e__ = if slice.len() - i__ < 2 { slice.len() } else { i__ + 2 } ;
//+{
            let ghost d0 = self.data@;
            let ghost pre = slice@.subrange(0, i__ as int);
            let ghost ch = slice@.subrange(i__ as int, e__ as int);
            proof {
                assert(slice@.subrange(0, e__ as int) =~= pre + ch);
                lemma_val32_append(pre, ch);
                lemma_pw32_pw((i__ / 2) as nat);
            }
//+}
            self.data.push(u32_chunk_to_u64(&slice[i__..e__])) ;
//+{
            proof {
                lemma_val_push(d0, self.data@[d0.len() as int]);
                assert(self.data@ =~= d0.push(self.data@[d0.len() as int]));
            }
//+}
            i__ = e__ ; } }
//+{
        proof { assert(slice@.subrange(0, slice@.len() as int) =~= slice@); }
//+}

        self.normalize();
    }
//@ end

//@ extract src/biguint.rs :: impl BigUint :: fn from_slice props=C09,C04
    pub fn from_slice(slice: &[u32]) -> /*+*/(r: /*-*/BigUint/*+*/)/*-*/
//+{
        ensures r.wf(), r.v() == val32(slice@)
//+}
    {
        let mut big = Self::ZERO;
        big.assign_from_slice(slice);
        big
    }
//@ end

//@ extract src/biguint.rs :: impl BigUint :: fn new rules=R0,R0d props=C09,C04
    pub fn new(digits: Vec<u32>) -> /*+*/(r: /*-*/BigUint/*+*/)/*-*/
//+{
        ensures r.wf(), r.v() == val32(digits@)
//+}
    {
        let mut big = Self::ZERO;

        big.assign_from_slice(&digits);

        big
    }
//@ end
}

} // mod u
} // verus!
fn main() {}
