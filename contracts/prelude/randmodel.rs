// Local model of rand::Rng (external crate) for the monomorphic instance R = MRng: a generator with a ghost log of the
// 32-bit words handed out through `fill` and of the booleans handed out through `gen::<bool>()`. Nothing is assumed
// about the values (every stream is possible), only that each call appends what it returned to the log.
//@ assume MRng : model type standing for an arbitrary rand::Rng implementation (opaque state)
#[verifier::external_body]
pub struct MRng { _p: () }
impl MRng {
    pub uninterp spec fn words(&self) -> Seq<u32>;
    pub uninterp spec fn flips(&self) -> Seq<bool>;
    //@ assume rand::Rng::fill([u32]) : external crate: fills the slice with the next words of the stream (value-stable: one u32 per element, in order)
    #[verifier::external_body]
    pub fn fill(&mut self, dest: &mut [u32])
        ensures final(dest)@.len() == old(dest)@.len(), final(self).words() == old(self).words() + final(dest)@, final(self).flips() == old(self).flips()
    { unimplemented!() }
    //@ assume rand::Rng::gen::<bool> : external crate: the next boolean of the stream
    #[verifier::external_body]
    pub fn gen(&mut self) -> (r: bool)
        ensures final(self).flips() == old(self).flips().push(r), final(self).words() == old(self).words()
    { unimplemented!() }
}
/// the generator moved from state r0 to r1 by drawing exactly the words w (and no booleans)
pub open spec fn drew(r0: MRng, r1: MRng, w: Seq<u32>) -> bool { r1.words() == r0.words() + w && r1.flips() == r0.flips() }
/// r1's logs extend r0's
pub open spec fn later(r0: MRng, r1: MRng) -> bool {
    r1.words().len() >= r0.words().len() && r1.words().subrange(0, r0.words().len() as int) == r0.words()
    && r1.flips().len() >= r0.flips().len() && r1.flips().subrange(0, r0.flips().len() as int) == r0.flips()
}

// Rule R51: the reinterpretation `slice::from_raw_parts_mut(data.as_mut_ptr() as *mut u32, len)` of a zeroed Vec<u64> as u32
// words is modelled, for the little-endian target, by a separate word buffer that is stored back: 64-bit digit i holds
// words 2i (low half) and 2i+1 (high half). The safety precondition of from_raw_parts_mut - the `len` u32 words lie inside
// the allocation of `data` - is the `requires` of the first helper (C15).
//@ assume __u32_view_take : rule R51, model of the u32 view of a Vec<u64> (little-endian target); requires the view to lie inside the allocation
#[verifier::external_body]
pub fn __u32_view_take(data: &Vec<u64>, len: usize) -> (r: Vec<u32>)
    requires len <= 2 * data@.len(), forall|i: int| 0 <= i < data@.len() ==> data@[i] == 0
    ensures r@.len() == len, forall|i: int| 0 <= i < len ==> r@[i] == 0
{ unimplemented!() }
//@ assume __u32_view_store : rule R51, model of writes through the u32 view (little-endian target): digit i = word 2i + 2^32 * word 2i+1, missing words read as zero
#[verifier::external_body]
pub fn __u32_view_store(data: &mut Vec<u64>, words: &Vec<u32>)
    requires words@.len() <= 2 * old(data)@.len(), forall|i: int| 0 <= i < old(data)@.len() ==> old(data)@[i] == 0
    ensures final(data)@.len() == old(data)@.len(),
        forall|i: int| 0 <= i < final(data)@.len() ==> #[trigger] final(data)@[i] as nat == w32(words@, 2 * i) + 0x1_0000_0000 * w32(words@, 2 * i + 1)
{ unimplemented!() }
pub open spec fn w32(s: Seq<u32>, i: int) -> nat { if 0 <= i < s.len() { s[i] as nat } else { 0 } }
