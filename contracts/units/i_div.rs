//@ unit i_div : BigInt division conventions: truncation, floor, Euclid, ceil, checked variants (src/bigint.rs, src/bigint/division.rs, src/bigint/convert.rs)
#![feature(allocator_api)]
use vstd::prelude::*;
use vstd::std_specs::iter::IteratorSpec;
use vstd::std_specs::ops::*;
use core::ops::{Add, Sub, Neg, Div, Rem};
verus! {
//@ include prelude/core.rs
//@ include prelude/std_specs.rs
//@ include prelude/panic.rs
//@ include prelude/val32.rs
//@ extract src/bigint.rs :: enum Sign attrs=1
#[derive(/*+*/Structural, /*-*/PartialEq, PartialOrd, Eq, Ord, Copy, Clone, Debug, Hash)]
pub enum Sign {
    Minus,
    NoSign,
    Plus,
}
//@ end
pub mod u {
use super::*;
use Sign::*;

//@ extract src/biguint.rs :: struct BigUint
pub struct BigUint {
    data: Vec<BigDigit>,
}
//@ end
//@ include prelude/biguint_view.rs
impl BigUint {
//@ extract src/biguint.rs :: impl BigUint :: const ZERO rules=R9,R13 label=BigUint_ZERO
    exec const ZERO: Self /*+*/ensures Self::ZERO.data@.len() == 0 /*-*/{ BigUint { data: Vec::new() } }
//@ end
//@ stub u_core/clone
//@ stub u_core/is_zero
}
//@ include prelude/biguint_div_api.rs

//@ extract src/bigint.rs :: struct BigInt
pub struct BigInt {
    sign: Sign,
    data: BigUint,
}
//@ end
//@ include prelude/bigint_view.rs
//@ include prelude/bigint_core_stubs.rs
//@ include prelude/bigint_ops_forms.rs
//@ include prelude/divspec.rs

impl vstd::std_specs::convert::FromSpecImpl<BigUint> for BigInt {
    open spec fn obeys_from_spec() -> bool { false }
    open spec fn from_spec(v: BigUint) -> BigInt { arbitrary() }
}
impl From<BigUint> for BigInt {
//@ extract src/bigint/convert.rs :: impl From<BigUint> for BigInt :: fn from props=C19,C08 label=from_biguint_trait
    fn from(n: BigUint) -> /*+*/(r: /*-*/Self/*+*/)/*-*/
//+{
        ensures n.wf() ==> r.wfi() && r.iv() == n.v() as int
//+}
    {
//+{
        proof { lemma_sgn_mul(Plus, n.v()); }
//+}
        if n.is_zero() {
            Self::ZERO
        } else {
            BigInt {
                sign: Plus,
                data: n,
            }
        }
    }
//@ end
}

impl RemSpecImpl<&BigInt> for &BigInt {
    open spec fn obeys_rem_spec() -> bool { false }
    open spec fn rem_req(self, rhs: &BigInt) -> bool { self.wfi() && rhs.wfi() && (!mp() ==> rhs.iv() != 0) }
    open spec fn rem_spec(self, rhs: &BigInt) -> BigInt { arbitrary() }
}
impl Rem<&BigInt> for &BigInt {
    type Output = BigInt;
//@ stub i_divops/rem_rr
}

impl BigInt {
    // contract-only re-homing: methods of `impl Integer / Euclid / CheckedDiv / CheckedEuclid for BigInt` (external traits)
//@ extract src/bigint.rs :: impl Integer for BigInt :: fn div_rem props=C03,C14
    fn div_rem(&self, other: &BigInt) -> /*+*/(res: /*-*/(BigInt, BigInt)/*+*/)/*-*/
//+{
        requires self.wfi(), other.wfi(), !mp() ==> other.iv() != 0
        ensures mp() ==> other.iv() != 0, res.0.wfi(), res.1.wfi(), is_trunc(self.iv(), other.iv(), res.0.iv(), res.1.iv())
//+}
    {
        // r.sign == self.sign
        let (d_ui, r_ui) = self.data.div_rem(&other.data);
//+{
        proof {
            lemma_sgn_mul(other.sign, other.data.v());
            lemma_signed_div(self.sign, other.sign, self.data.v(), other.data.v(), d_ui.v(), r_ui.v());
            lemma_sgn_mul(self.sign, d_ui.v()); lemma_sgn_mul(self.sign, r_ui.v());
        }
//+}
        let d = BigInt::from_biguint(self.sign, d_ui);
        let r = BigInt::from_biguint(self.sign, r_ui);
        if other.is_negative() {
            (-d, r)
        } else {
            (d, r)
        }
    }
//@ end

//@ extract src/bigint.rs :: impl Integer for BigInt :: fn div_floor rules=R0,R11d props=C03,C14
    fn div_floor(&self, other: &BigInt) -> /*+*/(res: /*-*/BigInt/*+*/)/*-*/
//+{
        requires self.wfi(), other.wfi(), !mp() ==> other.iv() != 0
        ensures mp() ==> other.iv() != 0, res.wfi(), exists|m: int| is_floor(self.iv(), other.iv(), res.iv(), m)
//+}
    {
        let (d_ui, m) = self.data.div_mod_floor(&other.data);
//+{
        proof {
            lemma_sgn_mul(other.sign, other.data.v()); lemma_sgn_mul(self.sign, self.data.v());
            lemma_signed_div(self.sign, other.sign, self.data.v(), other.data.v(), d_ui.v(), m.v());
        }
//+}
        let d = BigInt::from(d_ui);
//+{
        let ghost sbv = sgn(other.sign);
        let ghost w: int = if sgn(self.sign) == sbv || self.sign == NoSign { sbv * (m.v() as int) } else if m.v() == 0 { 0 } else { sbv * (other.data.v() as int) - sbv * (m.v() as int) };
//+}
        /*+*/let res = /*-*/match (self.sign, other.sign) {
            (Plus, Plus) | (NoSign, Plus) | (Minus, Minus) => d,
            (Plus, Minus) | (NoSign, Minus) | (Minus, Plus) => {
                if m.is_zero() {
                    -d
                } else {
                    -d - 1u32
                }
            }
            (_, NoSign) => __unreachable(),
        }/*+*/;
        proof { assert(is_floor(self.iv(), other.iv(), res.iv(), w)); }
        res/*-*/
    }
//@ end

//@ extract src/bigint.rs :: impl Integer for BigInt :: fn mod_floor rules=R0,R11d ufcs=other-m props=C03,C14
    fn mod_floor(&self, other: &BigInt) -> /*+*/(res: /*-*/BigInt/*+*/)/*-*/
//+{
        requires self.wfi(), other.wfi(), !mp() ==> other.iv() != 0
        ensures mp() ==> other.iv() != 0, res.wfi(), exists|q: int| is_floor(self.iv(), other.iv(), q, res.iv())
//+}
    {
        // m.sign == other.sign
        let m_ui = self.data.mod_floor(&other.data);
//+{
        let ghost qq = choose|q: nat| self.data.v() == #[trigger] (q * other.data.v()) + m_ui.v();
        proof {
            lemma_sgn_mul(other.sign, other.data.v()); lemma_sgn_mul(self.sign, self.data.v());
            lemma_signed_div(self.sign, other.sign, self.data.v(), other.data.v(), qq, m_ui.v());
            lemma_sgn_mul(other.sign, m_ui.v());
        }
//+}
        let m = BigInt::from_biguint(other.sign, m_ui);
//+{
        let ghost w: int = if sgn(self.sign) == sgn(other.sign) || self.sign == NoSign { qq as int } else if m_ui.v() == 0 { -(qq as int) } else { -(qq as int) - 1 };
//+}
        /*+*/let res = /*-*/match (self.sign, other.sign) {
            (Plus, Plus) | (NoSign, Plus) | (Minus, Minus) => m,
            (Plus, Minus) | (NoSign, Minus) | (Minus, Plus) => {
                if m.is_zero() {
                    m
                } else {
                    Sub::sub(other, m)
                }
            }
            (_, NoSign) => __unreachable(),
        }/*+*/;
        proof { assert(is_floor(self.iv(), other.iv(), w, res.iv())); }
        res/*-*/
    }
//@ end

//@ extract src/bigint.rs :: impl Integer for BigInt :: fn div_mod_floor rules=R0,R11d ufcs=other-m props=C03,C14
    fn div_mod_floor(&self, other: &BigInt) -> /*+*/(res: /*-*/(BigInt, BigInt)/*+*/)/*-*/
//+{
        requires self.wfi(), other.wfi(), !mp() ==> other.iv() != 0
        ensures mp() ==> other.iv() != 0, res.0.wfi(), res.1.wfi(), is_floor(self.iv(), other.iv(), res.0.iv(), res.1.iv())
//+}
    {
        // m.sign == other.sign
        let (d_ui, m_ui) = self.data.div_mod_floor(&other.data);
//+{
        proof {
            lemma_sgn_mul(other.sign, other.data.v()); lemma_sgn_mul(self.sign, self.data.v());
            lemma_signed_div(self.sign, other.sign, self.data.v(), other.data.v(), d_ui.v(), m_ui.v());
            lemma_sgn_mul(other.sign, m_ui.v());
        }
//+}
        let d = BigInt::from(d_ui);
        let m = BigInt::from_biguint(other.sign, m_ui);
        match (self.sign, other.sign) {
            (Plus, Plus) | (NoSign, Plus) | (Minus, Minus) => (d, m),
            (Plus, Minus) | (NoSign, Minus) | (Minus, Plus) => {
                if m.is_zero() {
                    (-d, m)
                } else {
                    (-d - 1u32, Sub::sub(other, m))
                }
            }
            (_, NoSign) => __unreachable(),
        }
    }
//@ end

//@ extract src/bigint.rs :: impl Integer for BigInt :: fn div_ceil rules=R0,R11d props=C03,C14
    fn div_ceil(&self, other: &Self) -> /*+*/(res: /*-*/Self/*+*/)/*-*/
//+{
        requires self.wfi(), other.wfi(), !mp() ==> other.iv() != 0
        ensures mp() ==> other.iv() != 0, res.wfi(), exists|r: int| is_ceil(self.iv(), other.iv(), res.iv(), r)
//+}
    {
        let (d_ui, m) = self.data.div_mod_floor(&other.data);
//+{
        proof {
            lemma_sgn_mul(other.sign, other.data.v()); lemma_sgn_mul(self.sign, self.data.v());
            lemma_signed_div(self.sign, other.sign, self.data.v(), other.data.v(), d_ui.v(), m.v());
        }
//+}
        let d = BigInt::from(d_ui);
//+{
        let ghost sbv = sgn(other.sign);
        let ghost w: int = if sgn(self.sign) == -sbv && self.sign != NoSign { -(sbv * (m.v() as int)) } else if m.v() == 0 { 0 } else { sbv * (m.v() as int) - sbv * (other.data.v() as int) };
//+}
        /*+*/let res = /*-*/match (self.sign, other.sign) {
            (Plus, Minus) | (NoSign, Minus) | (Minus, Plus) => -d,
            (Plus, Plus) | (NoSign, Plus) | (Minus, Minus) => {
                if m.is_zero() {
                    d
                } else {
                    d + 1u32
                }
            }
            (_, NoSign) => __unreachable(),
        }/*+*/;
        proof { assert(is_ceil(self.iv(), other.iv(), res.iv(), w)); }
        res/*-*/
    }
//@ end

//@ extract src/bigint/division.rs :: impl Euclid for BigInt :: fn div_euclid props=C03,C14
    fn div_euclid(&self, v: &BigInt) -> /*+*/(res: /*-*/BigInt/*+*/)/*-*/
//+{
        requires self.wfi(), v.wfi(), !mp() ==> v.iv() != 0
        ensures mp() ==> v.iv() != 0, res.wfi(), exists|r: int| is_euclid(self.iv(), v.iv(), res.iv(), r)
//+}
    {
        let (q, r) = self.div_rem(v);
//+{
        proof {
            lemma_mul_signs(q.iv(), v.iv());
            if r.iv() < 0 {
                if v.iv() > 0 { assert(is_euclid(self.iv(), v.iv(), q.iv() - 1, r.iv() + v.iv())); }
                else { assert(is_euclid(self.iv(), v.iv(), q.iv() + 1, r.iv() - v.iv())); }
            } else { assert(is_euclid(self.iv(), v.iv(), q.iv(), r.iv())); }
        }
//+}
        if r.is_negative() {
            if v.is_positive() {
                q - 1
            } else {
                q + 1
            }
        } else {
            q
        }
    }
//@ end

//@ extract src/bigint/division.rs :: impl Euclid for BigInt :: fn rem_euclid ufcs=self%v,r+v,r-v props=C03,C14
    fn rem_euclid(&self, v: &BigInt) -> /*+*/(res: /*-*/BigInt/*+*/)/*-*/
//+{
        requires self.wfi(), v.wfi(), !mp() ==> v.iv() != 0
        ensures mp() ==> v.iv() != 0, res.wfi(), exists|q: int| is_euclid(self.iv(), v.iv(), q, res.iv())
//+}
    {
        let r = Rem::rem(self, v);
//+{
        proof {
            let q = choose|q: int| is_trunc(self.iv(), v.iv(), q, r.iv());
            lemma_mul_signs(q, v.iv());
            if r.iv() < 0 {
                if v.iv() > 0 { assert(is_euclid(self.iv(), v.iv(), q - 1, r.iv() + v.iv())); }
                else { assert(is_euclid(self.iv(), v.iv(), q + 1, r.iv() - v.iv())); }
            } else { assert(is_euclid(self.iv(), v.iv(), q, r.iv())); }
        }
//+}
        if r.is_negative() {
            if v.is_positive() {
                Add::add(r, v)
            } else {
                Sub::sub(r, v)
            }
        } else {
            r
        }
    }
//@ end

//@ extract src/bigint/division.rs :: impl Euclid for BigInt :: fn div_rem_euclid ufcs=r+v,r-v props=C03,C14
    fn div_rem_euclid(&self, v: &Self) -> /*+*/(res: /*-*/(Self, Self)/*+*/)/*-*/
//+{
        requires self.wfi(), v.wfi(), !mp() ==> v.iv() != 0
        ensures mp() ==> v.iv() != 0, res.0.wfi(), res.1.wfi(), is_euclid(self.iv(), v.iv(), res.0.iv(), res.1.iv())
//+}
    {
        let (q, r) = self.div_rem(v);
//+{
        proof { lemma_mul_signs(q.iv(), v.iv()); }
//+}
        if r.is_negative() {
            if v.is_positive() {
                (q - 1, Add::add(r, v))
            } else {
                (q + 1, Sub::sub(r, v))
            }
        } else {
            (q, r)
        }
    }
//@ end

//@ extract src/bigint/division.rs :: impl CheckedEuclid for BigInt :: fn checked_div_euclid props=C03,C14
    fn checked_div_euclid(&self, v: &BigInt) -> /*+*/(res: /*-*/Option<BigInt>/*+*/)/*-*/
//+{
        requires self.wfi(), v.wfi()
        ensures res is None <==> v.iv() == 0,
            res is Some ==> res.unwrap().wfi() && exists|r: int| is_euclid(self.iv(), v.iv(), res.unwrap().iv(), r)
//+}
    {
        if v.is_zero() {
            return None;
        }
        /*+*/let res = /*-*/Some(self.div_euclid(v))/*+*/;
        proof { let r = choose|r: int| is_euclid(self.iv(), v.iv(), res.unwrap().iv(), r); assert(is_euclid(self.iv(), v.iv(), res.unwrap().iv(), r)); }
        res/*-*/
    }
//@ end

//@ extract src/bigint/division.rs :: impl CheckedEuclid for BigInt :: fn checked_rem_euclid props=C03,C14
    fn checked_rem_euclid(&self, v: &BigInt) -> /*+*/(res: /*-*/Option<BigInt>/*+*/)/*-*/
//+{
        requires self.wfi(), v.wfi()
        ensures res is None <==> v.iv() == 0,
            res is Some ==> res.unwrap().wfi() && exists|q: int| is_euclid(self.iv(), v.iv(), q, res.unwrap().iv())
//+}
    {
        if v.is_zero() {
            return None;
        }
        /*+*/let res = /*-*/Some(self.rem_euclid(v))/*+*/;
        proof { let q = choose|q: int| is_euclid(self.iv(), v.iv(), q, res.unwrap().iv()); assert(is_euclid(self.iv(), v.iv(), q, res.unwrap().iv())); }
        res/*-*/
    }
//@ end

//@ extract src/bigint/division.rs :: impl CheckedEuclid for BigInt :: fn checked_div_rem_euclid props=C03,C14
    fn checked_div_rem_euclid(&self, v: &Self) -> /*+*/(res: /*-*/Option<(Self, Self)>/*+*/)/*-*/
//+{
        requires self.wfi(), v.wfi()
        ensures res is None <==> v.iv() == 0,
            res is Some ==> res.unwrap().0.wfi() && res.unwrap().1.wfi() && is_euclid(self.iv(), v.iv(), res.unwrap().0.iv(), res.unwrap().1.iv())
//+}
    {
        if v.is_zero() {
            return None;
        }
        Some(self.div_rem_euclid(v))
    }
//@ end
}

} // mod u
} // verus!
fn main() {}
