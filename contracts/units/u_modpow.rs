//@ unit u_modpow : Montgomery modular exponentiation with 4-bit windows (src/biguint/monty.rs :: monty_modpow, MontyReducer)
#![feature(allocator_api)]
use vstd::prelude::*;
use vstd::std_specs::iter::IteratorSpec;
use vstd::std_specs::ops::*;
use vstd::arithmetic::power::pow;
use vstd::arithmetic::power2::pow2;
use core::ops::{Shl, Rem, RemAssign, SubAssign, Mul, MulAssign};
use core::cmp::Ordering;
use core::mem;
verus! {
//@ include prelude/core.rs
//@ include prelude/std_specs.rs
//@ include prelude/panic.rs
//@ include prelude/highbits.rs
//@ include prelude/bitval.rs
//@ include prelude/congm.rs
pub mod u {
use super::*;

pub mod big_digit {
    use vstd::prelude::*;
    pub type BigDigit = u64;
    pub type DoubleBigDigit = u128;
//@ extract src/lib.rs :: mod big_digit :: const BITS
    pub(crate) const BITS: u8 = BigDigit::BITS as u8;
//@ end
}

//@ extract src/biguint.rs :: struct BigUint
pub struct BigUint {
    data: Vec<BigDigit>,
}
//@ end
//@ include prelude/biguint_view.rs
pub open spec fn BI() -> int { 0x1_0000_0000_0000_0000int }
pub open spec fn p2(k: nat) -> nat { pow2(k) }
pub open spec fn udiv_ok(a: nat, b: nat, q: nat, m: nat) -> bool { a == q * b + m && m < b }
pub open spec fn ord_of(a: nat, b: nat) -> Ordering {
    if a < b { Ordering::Less } else if a == b { Ordering::Equal } else { Ordering::Greater }
}
impl BigUint {
//@ extract src/biguint.rs :: impl BigUint :: const ZERO rules=R9,R13 label=BigUint_ZERO
    exec const ZERO: Self /*+*/ensures Self::ZERO.data@.len() == 0 /*-*/{ BigUint { data: Vec::new() } }
//@ end
//@ stub u_core/clone
//@ stub u_core/one
//@ stub u_core/normalize
//@ stub u_cmp/cmp
//@ stub u_core/is_zero

    // contract-only re-homing of `impl Integer for BigUint` (num_integer::Integer is an external trait)
//@ extract src/biguint.rs :: impl Integer for BigUint :: fn is_even props=C13,C05
    fn is_even(&self) -> /*+*/(r: /*-*/bool/*+*/)/*-*/
//+{
        ensures r == (self.v() % 2 == 0)
//+}
    {
//+{
        proof { if self.data@.len() > 0 { lemma_low_digit_parity(self.data@); } }
//+}
        // Considering only the last digit.
        match self.data.first() {
            Some(x) => x.is_even(),
            None => true,
        }
    }
//@ end

//@ extract src/biguint.rs :: impl Integer for BigUint :: fn is_odd props=C13,C05
    fn is_odd(&self) -> /*+*/(r: /*-*/bool/*+*/)/*-*/
//+{
        ensures r == (self.v() % 2 == 1)
//+}
    {
        !self.is_even()
    }
//@ end
}

pub proof fn lemma_low_digit_parity(s: Seq<u64>)
    requires s.len() > 0
    ensures val(s) % 2 == (s[0] as nat) % 2
{
    lemma_digit_split(s, 0);
    let h = val(s.subrange(1, s.len() as int));
    assert(pw(0) * ((s[0] as nat) + B() * h) == (s[0] as nat) + B() * h) by (nonlinear_arith) requires pw(0) == 1;
    assert(((s[0] as nat) + B() * h) % 2 == (s[0] as nat) % 2) by (nonlinear_arith) requires B() == 0x1_0000_0000_0000_0000nat;
}
//@ stub k_monty/inv_mod_alt
//@ stub k_monty/montgomery
impl ShlSpecImpl<u64> for BigUint {
    open spec fn obeys_shl_spec() -> bool { false }
    open spec fn shl_req(self, rhs: u64) -> bool { self.wf() }
    open spec fn shl_spec(self, rhs: u64) -> BigUint { arbitrary() }
}
impl Shl<u64> for BigUint {
    type Output = BigUint;
//@ stub u_shiftops/shl_u64
}
impl RemSpecImpl<&BigUint> for BigUint {
    open spec fn obeys_rem_spec() -> bool { false }
    open spec fn rem_req(self, rhs: &BigUint) -> bool { self.wf() && rhs.wf() && (!mp() ==> rhs.v() != 0) }
    open spec fn rem_spec(self, rhs: &BigUint) -> BigUint { arbitrary() }
}
impl Rem<&BigUint> for BigUint {
    type Output = BigUint;
//@ stub u_fwd/rem_val_ref
}
impl RemAssignSpecImpl<&BigUint> for BigUint {
    open spec fn obeys_rem_assign_spec() -> bool { false }
    open spec fn rem_assign_req(&self, rhs: &BigUint) -> bool { self.wf() && rhs.wf() && (!mp() ==> rhs.v() != 0) }
    open spec fn rem_assign_spec(&self, rhs: &BigUint) -> &BigUint { arbitrary() }
}
impl RemAssign<&BigUint> for BigUint {
//@ stub u_fwd/rem_assign_ref
}
impl SubAssignSpecImpl<&BigUint> for BigUint {
    open spec fn obeys_sub_assign_spec() -> bool { false }
    open spec fn sub_assign_req(&self, rhs: &BigUint) -> bool { self.wf() && rhs.wf() && (!mp() ==> self.v() >= rhs.v()) }
    open spec fn sub_assign_spec(&self, rhs: &BigUint) -> &BigUint { arbitrary() }
}
impl SubAssign<&BigUint> for BigUint {
//@ stub u_addsub/sub_assign
}

impl RemSpecImpl<&BigUint> for &BigUint {
    open spec fn obeys_rem_spec() -> bool { false }
    open spec fn rem_req(self, rhs: &BigUint) -> bool { self.wf() && rhs.wf() && (!mp() ==> rhs.v() != 0) }
    open spec fn rem_spec(self, rhs: &BigUint) -> BigUint { arbitrary() }
}
impl Rem<&BigUint> for &BigUint {
    type Output = BigUint;
//@ stub u_divscalar/rem_ref_ref
}
impl MulSpecImpl<&BigUint> for &BigUint {
    open spec fn obeys_mul_spec() -> bool { false }
    open spec fn mul_req(self, rhs: &BigUint) -> bool { self.wf() && rhs.wf() }
    open spec fn mul_spec(self, rhs: &BigUint) -> BigUint { arbitrary() }
}
impl Mul<&BigUint> for &BigUint {
    type Output = BigUint;
//@ stub u_mul/mul_rr
}
impl MulAssignSpecImpl<&BigUint> for BigUint {
    open spec fn obeys_mul_assign_spec() -> bool { false }
    open spec fn mul_assign_req(&self, rhs: &BigUint) -> bool { self.wf() && rhs.wf() }
    open spec fn mul_assign_spec(&self, rhs: &BigUint) -> &BigUint { arbitrary() }
}
impl MulAssign<&BigUint> for BigUint {
//@ stub u_mul/mul_assign_r
}

// local model of num_integer::Integer::{is_even, is_odd} and num_traits::{Zero::is_zero, One::is_one} on u64 (external crates)
pub trait PrimU64Q: Sized {
    spec fn as_nat(self) -> nat;
    fn is_zero(&self) -> (r: bool)
        ensures r == (self.as_nat() == 0);
    fn is_one(&self) -> (r: bool)
        ensures r == (self.as_nat() == 1);
    fn is_odd(&self) -> (r: bool)
        ensures r == (self.as_nat() % 2 == 1);
    fn is_even(&self) -> (r: bool)
        ensures r == (self.as_nat() % 2 == 0);
}
impl PrimU64Q for u64 {
    open spec fn as_nat(self) -> nat { self as nat }
    //@ assume num_traits::<u64 as Zero>::is_zero : external crate; contract on the trait declaration above
    #[verifier::external_body]
    fn is_zero(&self) -> (r: bool) { unimplemented!() }
    //@ assume num_traits::<u64 as One>::is_one : external crate; contract on the trait declaration above
    #[verifier::external_body]
    fn is_one(&self) -> (r: bool) { unimplemented!() }
    //@ assume num_integer::<u64 as Integer>::is_odd : external crate; contract on the trait declaration above
    #[verifier::external_body]
    fn is_odd(&self) -> (r: bool) { unimplemented!() }
    //@ assume num_integer::<u64 as Integer>::is_even : external crate; contract on the trait declaration above
    #[verifier::external_body]
    fn is_even(&self) -> (r: bool) { unimplemented!() }
}

/// the i most significant digits of s
pub open spec fn top(s: Seq<u64>, i: int) -> Seq<u64> { s.subrange(s.len() - i, s.len() as int) }

pub proof fn lemma_top_step(s: Seq<u64>, i: int)
    requires 0 <= i < s.len()
    ensures val(top(s, i + 1)) == (s[s.len() - 1 - i] as nat) + B() * val(top(s, i))
{
    let d = s[s.len() - 1 - i];
    assert(top(s, i + 1) =~= seq![d] + top(s, i));
    lemma_val_concat(seq![d], top(s, i));
    lemma_val_single(d);
    assert(pw(1) == B() * pw(0));
}

/// z represents X in the Montgomery domain with R = B^n: z == X * R (mod m)
pub open spec fn rep(z: nat, x: int, r: int, m: int) -> bool { congm(z as int, x * r, m) }

/// product in the Montgomery domain: r*R == a*b, a ~ X, b ~ Y  ==>  r ~ X*Y
pub proof fn lemma_rep_mul(rv: nat, a: nat, b: nat, x: int, y: int, n: nat, m: int)
    requires m % 2 == 1, m > 0, congm(((rv * pw(n)) as int), (a * b) as int, m), rep(a, x, pw(n) as int, m), rep(b, y, pw(n) as int, m)
    ensures rep(rv, x * y, pw(n) as int, m)
{
    let r = pw(n) as int;
    lemma_pw_p2_(n);
    lemma_congm_mul(a as int, x * r, b as int, y * r, m);
    assert((a as int) * (b as int) == (a * b) as int) by (nonlinear_arith);
    assert((x * r) * (y * r) == ((x * y) * r) * r) by (nonlinear_arith);
    assert((rv * pw(n)) as int == (rv as int) * r) by (nonlinear_arith) requires r == pw(n) as int;
    lemma_congm_trans((rv as int) * r, (a * b) as int, ((x * y) * r) * r, m);
    lemma_congm_cancel_pow2(rv as int, (x * y) * r, m, 64 * n);
}

/// leaving the Montgomery domain: r*R == z*1, z ~ X  ==>  r == X (mod m)
pub proof fn lemma_rep_out(rv: nat, z: nat, x: int, n: nat, m: int)
    requires m % 2 == 1, m > 0, congm(((rv * pw(n)) as int), (z * 1) as int, m), rep(z, x, pw(n) as int, m)
    ensures congm(rv as int, x, m)
{
    let r = pw(n) as int;
    lemma_pw_p2_(n);
    assert((z * 1) as int == z as int) by (nonlinear_arith);
    assert((rv * pw(n)) as int == (rv as int) * r) by (nonlinear_arith) requires r == pw(n) as int;
    lemma_congm_trans((rv as int) * r, z as int, x * r, m);
    lemma_congm_cancel_pow2(rv as int, x, m, 64 * n);
}

/// entering the domain through R^2: r*R == a*RR with RR == R^2 (mod m)  ==>  r ~ a
pub proof fn lemma_rep_in(rv: nat, a: nat, rr: nat, n: nat, m: int)
    requires m % 2 == 1, m > 0, congm(((rv * pw(n)) as int), (a * rr) as int, m), congm(rr as int, (pw(n) * pw(n)) as int, m)
    ensures rep(rv, a as int, pw(n) as int, m)
{
    let r = pw(n) as int;
    lemma_pw_p2_(n);
    lemma_congm_refl(a as int, m);
    lemma_congm_mul(a as int, a as int, rr as int, (pw(n) * pw(n)) as int, m);
    assert((a as int) * (rr as int) == (a * rr) as int) by (nonlinear_arith);
    assert((a as int) * ((pw(n) * pw(n)) as int) == ((a as int) * r) * r) by (nonlinear_arith) requires r == pw(n) as int;
    assert((rv * pw(n)) as int == (rv as int) * r) by (nonlinear_arith) requires r == pw(n) as int;
    lemma_congm_trans((rv as int) * r, (a * rr) as int, ((a as int) * r) * r, m);
    lemma_congm_cancel_pow2(rv as int, (a as int) * r, m, 64 * n);
}

/// the top j bits of a digit (j a multiple of 4), and how one more 4-bit window extends them
pub open spec fn pre_bits(yd: u64, j: u8) -> u64 { if j == 0 { 0 } else if j >= 64 { yd } else { yd >> ((64 - j) as u8) } }

pub proof fn lemma_window(yd: u64, j: u8)
    requires j <= 60, j % 4 == 0
    ensures pre_bits(yd, (j + 4) as u8) as nat == (pre_bits(yd, j) as nat) * 16 + (((yd << j) >> 60u8) as nat), ((yd << j) >> 60u8) < 16,
        j < 60 ==> ((yd << j) << 4u8) == (yd << ((j + 4) as u8)), yd << 0u8 == yd
{
    assert(((yd << j) >> 60u8) < 16) by (bit_vector);
    assert((yd << 0u8) == yd) by (bit_vector);
    assert(j < 60 ==> ((yd << j) << 4u8) == (yd << ((j + 4) as u8))) by (bit_vector);
    if j == 0 {
    } else if j == 60 {
        assert(yd == (yd >> 4u8) * 16 + ((yd << 60u8) >> 60u8)) by (bit_vector);
    } else {
        assert(0 < j < 60 && j % 4 == 0 ==> (yd >> ((60 - j) as u8)) == (yd >> ((64 - j) as u8)) * 16 + ((yd << j) >> 60u8)) by (bit_vector);
    }
}

/// r*R == a*b with a ~ X^e1, b ~ X^e2  ==>  r ~ X^(e1+e2)
pub proof fn lemma_rep_pow(rv: nat, a: nat, b: nat, x: int, e1: nat, e2: nat, n: nat, m: int)
    requires m % 2 == 1, m > 0, congm(((rv * pw(n)) as int), (a * b) as int, m), rep(a, pow(x, e1), pw(n) as int, m), rep(b, pow(x, e2), pw(n) as int, m)
    ensures rep(rv, pow(x, e1 + e2), pw(n) as int, m)
{
    lemma_rep_mul(rv, a, b, pow(x, e1), pow(x, e2), n, m);
    vstd::arithmetic::power::lemma_pow_adds(x, e1, e2);
}

/// r is b^e reduced modulo m: r = b^e + k*m for some integer k
pub open spec fn is_modpow(b: int, e: nat, m: int, r: int) -> bool { exists|k: int| r == vstd::arithmetic::power::pow(b, e) + #[trigger] (k * m) }

pub closed spec fn pw_ok(p: BigUint, e: nat, x: int, n: nat, m: int) -> bool { p.data@.len() == n && rep(val(p.data@), pow(x, e), pw(n) as int, m) }

pub proof fn lemma_len_le(a: Seq<u64>, b: Seq<u64>)
    requires wf(a), val(a) < val(b)
    ensures a.len() <= b.len()
{
    if a.len() > b.len() {
        lemma_wf_lower(a);
        lemma_valp_bound(b, b.len());
        lemma_pw_mono(b.len(), (a.len() - 1) as nat);
    }
}

pub proof fn lemma_val_one(s: Seq<u64>)
    requires wf(s), val(s) == 1
    ensures s =~= seq![1u64]
{
    lemma_wf_zero(s);
    if s.len() >= 2 {
        lemma_wf_lower(s);
        lemma_pw_mono(1, (s.len() - 1) as nat);
        assert(pw(1) == B() * pw(0));
    }
    assert(s =~= seq![s[0]]);
    lemma_val_single(s[0]);
}

pub proof fn lemma_one_padded(s: Seq<u64>)
    requires s.len() >= 1, s[0] == 1, forall|j: int| 1 <= j < s.len() ==> s[j] == 0
    ensures val(s) == 1
{
    lemma_val_zero_ext(seq![1u64], s);
    lemma_val_single(1u64);
}

//@ extract src/biguint/monty.rs :: struct MontyReducer
struct MontyReducer {
    n0inv: BigDigit,
}
//@ end

impl MontyReducer {
//@ extract src/biguint/monty.rs :: impl MontyReducer :: fn new props=C05 label=monty_reducer_new
    fn new(n: &BigUint) -> /*+*/(r: /*-*/Self/*+*/)/*-*/
//+{
        requires n.wf(), n.v() % 2 == 1
        ensures ((r.n0inv as int) * (n.data@[0] as int) + 1) % BI() == 0
//+}
    {
//+{
        proof {
            lemma_wf_zero(n.data@);
            lemma_digit_split(n.data@, 0);
            let h = val(n.data@.subrange(1, n.data@.len() as int));
            assert(pw(0) * ((n.data@[0] as nat) + B() * h) == (n.data@[0] as nat) + B() * h) by (nonlinear_arith) requires pw(0) == 1;
            assert(((n.data@[0] as nat) + B() * h) % 2 == (n.data@[0] as nat) % 2) by (nonlinear_arith) requires B() == 0x1_0000_0000_0000_0000nat;
        }
//+}
        let n0inv = inv_mod_alt(n.data[0]);
        MontyReducer { n0inv }
    }
//@ end
}

//@ extract src/biguint/monty.rs :: fn monty_modpow rules=R0,R11,R3ma,R3ms,R3mr,R10q,R10p,R16ge props=C05,C14
pub(super) fn monty_modpow(x: &BigUint, y: &BigUint, m: &BigUint) -> /*+*/(res: /*-*/BigUint/*+*/)/*-*/
//+{
    requires x.wf(), y.wf(), m.wf(), m.v() % 2 == 1
    ensures res.wf(), res.v() < m.v(), is_modpow(x.v() as int, y.v(), m.v() as int, res.v() as int)
//+}
{
//+{
    let ghost x0 = x.v() as int;
    let ghost mv = m.v() as int;
    let ghost ys = y.data@;
    proof {
        lemma_wf_zero(m.data@);
        lemma_digit_split(m.data@, 0);
        let h = val(m.data@.subrange(1, m.data@.len() as int));
        assert(pw(0) * ((m.data@[0] as nat) + B() * h) == (m.data@[0] as nat) + B() * h) by (nonlinear_arith) requires pw(0) == 1;
        assert(((m.data@[0] as nat) + B() * h) % 2 == (m.data@[0] as nat) % 2) by (nonlinear_arith) requires B() == 0x1_0000_0000_0000_0000nat;
        let d0 = m.data@[0];
        assert(d0 as nat % 2 == 1 ==> d0 & 1 == 1) by (bit_vector);
        axiom_vec_u64_len(&m.data);
    }
//+}
    __assert(m.data[0] & 1 == 1);
    let mr = MontyReducer::new(m);
    let num_words = m.data.len();
//+{
    let ghost nw = num_words as nat;
    let ghost rr_ = pw(nw) as int;
    proof { lemma_pw_p2_(nw); lemma_pw_pos(nw); }
//+}

    let mut x = x.clone();

    // We want the lengths of x and m to be equal.
    // It is OK if x >= m as long as len(x) == len(m).
//+{
    proof { lemma_congm_refl(x0, mv); }
    let ghost mut xs1 = x.data@;
//+}
    if x.data.len() > num_words {
        RemAssign::rem_assign(&mut x, m);
        // Note: now len(x) <= numWords, not guaranteed ==.
//+{
        proof {
            lemma_len_le(x.data@, m.data@);
            let q = choose|q: nat| #[trigger] udiv_ok(x0 as nat, m.v(), q, x.v());
            lemma_congm_add_multiple(x.v() as int, q as int, mv);
            lemma_congm_sym(x0, x.v() as int, mv);
            xs1 = x.data@;
        }
//+}
    }
    if x.data.len() < num_words {
        x.data.resize(num_words, 0);
//+{
        proof { lemma_val_zero_ext(xs1, x.data@); }
//+}
    }

    // rr = 2**(2*_W*len(m)) mod m
    let mut rr = BigUint::one();
//+{
    proof {
        assert(2 * (nw as int) * 64 < 0x1_0000_0000_0000_0000) by (nonlinear_arith) requires nw < 0x200_0000_0000_0000;
    }
//+}
    rr = Rem::rem(rr.shl(2 * num_words as u64 * u64::from(big_digit::BITS)), m);
//+{
    let ghost rs1 = rr.data@;
    proof {
        lemma_len_le(rr.data@, m.data@);
        vstd::arithmetic::power2::lemma_pow2_adds(64 * nw, 64 * nw);
        let sh = (2 * num_words as u64 * 64u64) as nat;
        assert(sh == 64 * nw + 64 * nw);
        let q = choose|q: nat| #[trigger] udiv_ok(1 * p2(sh), m.v(), q, rr.v());
        lemma_congm_add_multiple(rr.v() as int, q as int, mv);
        lemma_congm_sym((rr.v() + q * m.v()) as int, rr.v() as int, mv);
        assert((rr.v() + q * m.v()) as int == rr.v() as int + (q as int) * mv) by (nonlinear_arith) requires mv == m.v() as int;
        assert(congm(rr.v() as int, (pw(nw) * pw(nw)) as int, mv));
    }
//+}
    if rr.data.len() < num_words {
        rr.data.resize(num_words, 0);
//+{
        proof { lemma_val_zero_ext(rs1, rr.data@); }
//+}
    }
    // one = 1, with equal length to that of m
    let mut one = BigUint::one();
//+{
    proof { lemma_val_one(one.data@); }
//+}
    one.data.resize(num_words, 0);
//+{
    proof { lemma_one_padded(one.data@); }
//+}

    let n = 4;
    // powers[i] contains x^i
    let mut powers = Vec::with_capacity(1 << n);
    powers.push(montgomery(&one, &rr, m, mr.n0inv, num_words));
//+{
    proof {
        lemma_rep_in(val(powers@[0].data@), 1, val(rr.data@), nw, mv);
        vstd::arithmetic::power::lemma_pow0(x0);
        assert(pw_ok(powers@[0], 0, x0, nw, mv));
    }
//+}
    powers.push(montgomery(&x, &rr, m, mr.n0inv, num_words));
//+{
    proof {
        lemma_rep_in(val(powers@[1].data@), val(x.data@), val(rr.data@), nw, mv);
        // val(x) == x0 (mod m)  ==>  val(x)*R == x0*R
        lemma_congm_refl(rr_, mv);
        lemma_congm_mul(val(x.data@) as int, x0, rr_, rr_, mv);
        lemma_congm_trans(val(powers@[1].data@) as int, (val(x.data@) as int) * rr_, x0 * rr_, mv);
        vstd::arithmetic::power::lemma_pow1(x0);
        assert(pw_ok(powers@[1], 1, x0, nw, mv));
        assert(1usize << 4u8 == 16) by (bit_vector);
    }
//+}
    { let mut i__ = 2; let e__ = 1 << n; while i__ < e__
//+{
        invariant
            e__ == 16, 2 <= i__ <= 16, n == 4, powers@.len() == i__, nw == num_words, nw >= 1, nw < 0x200_0000_0000_0000, m.data@.len() == nw,
            mv == val(m.data@) as int, mv % 2 == 1, mv > 0,
            ((mr.n0inv as int) * (m.data@[0] as int) + 1) % BI() == 0,
            forall|k: int| 0 <= k < powers@.len() ==> pw_ok(#[trigger] powers@[k], k as nat, x0, nw, mv),
        decreases e__ - i__
//+}
    { let i = i__; i__ += 1;
        let r = montgomery(&powers[i - 1], &powers[1], m, mr.n0inv, num_words);
//+{
        proof {
            lemma_rep_pow(val(r.data@), val(powers@[i - 1].data@), val(powers@[1].data@), x0, (i - 1) as nat, 1, nw, mv);
            assert(pw_ok(r, i as nat, x0, nw, mv));
        }
//+}
        powers.push(r);
    } }

    // initialize z = 1 (Montgomery 1)
    let mut z = powers[0].clone();
    z.data.resize(num_words, 0);
//+{
    proof { assert(z.data@ =~= powers@[0].data@); }
//+}
    let mut zz = BigUint::ZERO;
    zz.data.resize(num_words, 0);
//+{
    let ghost mut e: nat = 0;
    proof { assert(top(ys, 0) =~= Seq::<u64>::empty()); }
//+}

    // same windowed exponent, but with Montgomery multiplications
    { let mut i__ = y.data.len(); while i__ > 0
//+{
        invariant
            i__ <= ys.len(), ys == y.data@, powers@.len() == 16, n == 4, nw == num_words, nw >= 1, nw < 0x200_0000_0000_0000, m.data@.len() == nw,
            mv == val(m.data@) as int, mv % 2 == 1, mv > 0,
            ((mr.n0inv as int) * (m.data@[0] as int) + 1) % BI() == 0,
            forall|k: int| 0 <= k < powers@.len() ==> pw_ok(#[trigger] powers@[k], k as nat, x0, nw, mv),
            pw_ok(z, e, x0, nw, mv), e == val(top(ys, ys.len() - i__)),
        decreases i__
//+}
    { i__ -= 1; let i = i__;
        let mut yi = y.data[i];
        let mut j = 0;
//+{
        let ghost yd = yi;
        let ghost hi = e;
        proof {
            lemma_window(yd, 0);
            vstd::arithmetic::power2::lemma2_to64();
            assert(hi * p2(0) == hi) by (nonlinear_arith) requires p2(0) == 1;
        }
//+}
        while j < big_digit::BITS
//+{
            invariant
                j % 4 == 0, j <= 64, j < 64 ==> yi == yd << j, n == 4, i < ys.len(), ys == y.data@,
                powers@.len() == 16, nw == num_words, nw >= 1, nw < 0x200_0000_0000_0000, m.data@.len() == nw,
                mv == val(m.data@) as int, mv % 2 == 1, mv > 0,
                ((mr.n0inv as int) * (m.data@[0] as int) + 1) % BI() == 0,
                forall|k: int| 0 <= k < powers@.len() ==> pw_ok(#[trigger] powers@[k], k as nat, x0, nw, mv),
                pw_ok(z, e, x0, nw, mv), e == hi * p2(j as nat) + pre_bits(yd, j) as nat,
                hi == val(top(ys, ys.len() - 1 - i)),
            decreases 64 - j
//+}
        {
//+{
            let ghost e0 = e;
            let ghost w = (yd << j) >> 60u8;
            proof {
                lemma_window(yd, j);
                vstd::arithmetic::power2::lemma_pow2_adds(j as nat, 4);
                vstd::arithmetic::power2::lemma2_to64();
                assert(hi * (p2(j as nat) * 16) + ((pre_bits(yd, j) as nat) * 16 + w as nat) == (hi * p2(j as nat) + pre_bits(yd, j) as nat) * 16 + w as nat) by (nonlinear_arith);
            }
//+}
            if i != y.data.len() - 1 || j != 0 {
                zz = montgomery(&z, &z, m, mr.n0inv, num_words);
//+{
                proof { lemma_rep_pow(val(zz.data@), val(z.data@), val(z.data@), x0, e0, e0, nw, mv); }
//+}
                z = montgomery(&zz, &zz, m, mr.n0inv, num_words);
//+{
                proof { lemma_rep_pow(val(z.data@), val(zz.data@), val(zz.data@), x0, e0 + e0, e0 + e0, nw, mv); }
//+}
                zz = montgomery(&z, &z, m, mr.n0inv, num_words);
//+{
                proof { lemma_rep_pow(val(zz.data@), val(z.data@), val(z.data@), x0, 4 * e0, 4 * e0, nw, mv); }
//+}
                z = montgomery(&zz, &zz, m, mr.n0inv, num_words);
//+{
                proof { lemma_rep_pow(val(z.data@), val(zz.data@), val(zz.data@), x0, 8 * e0, 8 * e0, nw, mv); }
//+}
            }
//+{
            else {
                proof {
                    assert(top(ys, 0) =~= Seq::<u64>::empty());
                    assert(e0 == 0);
                }
            }
            assert(pw_ok(z, 16 * e0, x0, nw, mv));
//+}
            zz = montgomery(
                &z,
                &powers[(yi >> (big_digit::BITS - n)) as usize],
                m,
                mr.n0inv,
                num_words,
            );
//+{
            proof {
                lemma_rep_pow(val(zz.data@), val(z.data@), val(powers@[w as int].data@), x0, 16 * e0, w as nat, nw, mv);
                e = 16 * e0 + w as nat;
            }
//+}
            mem::swap(&mut z, &mut zz);
            yi <<= n;
            j += n;
        }
//+{
        proof {
            lemma_top_step(ys, ys.len() - 1 - i);
            vstd::arithmetic::power2::lemma2_to64_rest();
            assert(j == 64);
            assert(hi * p2(64) == B() * hi) by (nonlinear_arith) requires p2(64) == B();
        }
//+}
    } }
//+{
    proof { assert(top(ys, ys.len() as int) =~= ys); }
//+}

    // convert to regular number
    zz = montgomery(&z, &one, m, mr.n0inv, num_words);
//+{
    proof { lemma_rep_out(val(zz.data@), val(z.data@), pow(x0, e), nw, mv); }
//+}

    zz.normalize();
    // One last reduction, just in case.
    // See golang.org/issue/13907.
    if !(zz.cmp(&*m) == core::cmp::Ordering::Less) {
        // Common case is m has high bit set; in that case,
        // since zz is the same length as m, there can be just
        // one multiple of m to remove. Just subtract.
        // We think that the subtract should be sufficient in general,
        // so do that unconditionally, but double-check,
        // in case our beliefs are wrong.
        // The div is not expected to be reached.
//+{
        let ghost v1 = zz.v() as int;
//+}
        SubAssign::sub_assign(&mut zz, m);
//+{
        proof {
            lemma_congm_add_multiple(v1, 1, mv);
            lemma_congm_trans(zz.v() as int, v1, pow(x0, e), mv);
        }
        let ghost v2 = zz.v();
//+}
        if !(zz.cmp(&*m) == core::cmp::Ordering::Less) {
            RemAssign::rem_assign(&mut zz, m);
//+{
            proof {
                let q = choose|q: nat| #[trigger] udiv_ok(v2, m.v(), q, zz.v());
                lemma_congm_add_multiple(zz.v() as int, q as int, mv);
                lemma_congm_sym(v2 as int, zz.v() as int, mv);
                assert(v2 as int == zz.v() as int + (q as int) * mv) by (nonlinear_arith) requires v2 == q * m.v() + zz.v(), mv == m.v() as int;
                lemma_congm_trans(zz.v() as int, v2 as int, pow(x0, e), mv);
            }
//+}
        }
    }

    zz.normalize();
    zz
}
//@ end

// ---------------------------------------------------------------- plain_modpow: right-to-left binary exponentiation

/// one more bit of the exponent: e mod 2^(p+1) == e mod 2^p + bit_p(e) * 2^p
pub proof fn lemma_low_step(e: nat, p: nat)
    ensures e % p2(p + 1) == e % p2(p) + (if bitv(e, p) { p2(p) } else { 0 })
{
    vstd::arithmetic::power2::lemma_pow2_pos(p);
    vstd::arithmetic::power2::lemma_pow2_adds(p, 1);
    vstd::arithmetic::power2::lemma2_to64();
    let q = e / p2(p);
    let r0 = e % p2(p);
    vstd::arithmetic::div_mod::lemma_fundamental_div_mod(e as int, p2(p) as int);
    vstd::arithmetic::div_mod::lemma_fundamental_div_mod(q as int, 2);
    let h = q / 2;
    let bit = q % 2;
    assert(e == h * p2(p + 1) + (bit * p2(p) + r0)) by (nonlinear_arith)
        requires e == p2(p) * q + r0, q == 2 * h + bit, p2(p + 1) == p2(p) * 2;
    assert(bit * p2(p) + r0 < p2(p + 1)) by (nonlinear_arith)
        requires bit <= 1, r0 < p2(p), p2(p + 1) == p2(p) * 2;
    vstd::arithmetic::div_mod::lemma_fundamental_div_mod_converse(e as int, p2(p + 1) as int, h as int, (bit * p2(p) + r0) as int);
    if bit == 1 { assert(bit * p2(p) == p2(p)) by (nonlinear_arith) requires bit == 1; }
    else { assert(bit * p2(p) == 0) by (nonlinear_arith) requires bit == 0; }
}

pub proof fn lemma_valp_zero(s: Seq<u64>, i: nat)
    requires i <= s.len(), forall|j: int| 0 <= j < i ==> s[j] == 0
    ensures valp(s, i) == 0
    decreases i
{
    if i > 0 {
        lemma_valp_zero(s, (i - 1) as nat);
        assert((s[i - 1] as nat) * pw((i - 1) as nat) == 0) by (nonlinear_arith) requires s[i - 1] == 0;
    }
}

/// digits below i all zero: no exponent bit below 64*i
pub proof fn lemma_low_digits_zero(s: Seq<u64>, i: nat)
    requires i < s.len(), forall|j: int| 0 <= j < i ==> s[j] == 0
    ensures val(s) % p2(64 * i) == 0
{
    lemma_digit_split(s, i);
    lemma_valp_zero(s, i);
    lemma_pw_p2_(i);
    let x = (s[i as int] as nat) + B() * val(s.subrange(i as int + 1, s.len() as int));
    vstd::arithmetic::power2::lemma_pow2_pos(64 * i);
    vstd::arithmetic::div_mod::lemma_mod_multiples_basic(x as int, p2(64 * i) as int);
    assert(pw(i) * x == x * p2(64 * i)) by (nonlinear_arith) requires pw(i) == p2(64 * i);
}

/// the top digit bounds the value
pub proof fn lemma_top_bound(s: Seq<u64>, c: nat)
    requires s.len() >= 1, c <= 64, (s[s.len() - 1] as nat) < p2(c)
    ensures val(s) < p2(64 * ((s.len() - 1) as nat) + c)
{
    let l = (s.len() - 1) as nat;
    lemma_digit_split(s, l);
    lemma_pw_p2_(l);
    assert(s.subrange(l as int + 1, s.len() as int) =~= Seq::<u64>::empty());
    vstd::arithmetic::power2::lemma_pow2_adds(64 * l, c);
    let d = s[l as int] as nat;
    assert(valp(s, l) + pw(l) * (d + B() * 0) < pw(l) * p2(c)) by (nonlinear_arith)
        requires valp(s, l) < pw(l), d + 1 <= p2(c);
}

/// r == d >> c == 0 bounds d (c < 64)
pub proof fn lemma_shr_zero_bound(d: u64, c: u8)
    requires c < 64, d >> c == 0
    ensures (d as nat) < p2(c as nat)
{
    vstd::bits::lemma_u64_shr_is_div(d, c as u64);
    assert(d >> c == d >> (c as u64)) by (bit_vector);
    vstd::arithmetic::power2::lemma_pow2_pos(c as nat);
    vstd::arithmetic::div_mod::lemma_fundamental_div_mod(d as int, p2(c as nat) as int);
    vstd::arithmetic::div_mod::lemma_mod_bound(d as int, p2(c as nat) as int);
    assert(p2(c as nat) * 0 == 0) by (nonlinear_arith);
}

pub proof fn lemma_udiv_congm(a: nat, m: nat, q: nat, r: nat)
    requires udiv_ok(a, m, q, r)
    ensures congm(r as int, a as int, m as int)
{
    lemma_congm_add_multiple(r as int, q as int, m as int);
    lemma_congm_sym((r as int) + (q as int) * (m as int), r as int, m as int);
    assert(a as int == (r as int) + (q as int) * (m as int)) by (nonlinear_arith) requires a == q * m + r;
}

/// r == a*b with a == x^e1, b == x^e2 (mod m)  ==>  r == x^(e1+e2)
pub proof fn lemma_cpow_mul(rv: int, a: int, b: int, x: int, e1: nat, e2: nat, m: int)
    requires congm(rv, a * b, m), congm(a, pow(x, e1), m), congm(b, pow(x, e2), m)
    ensures congm(rv, pow(x, e1 + e2), m)
{
    lemma_congm_mul(a, pow(x, e1), b, pow(x, e2), m);
    vstd::arithmetic::power::lemma_pow_adds(x, e1, e2);
    lemma_congm_trans(rv, a * b, pow(x, e1 + e2), m);
}

/// one squaring of the running base
pub proof fn lemma_sq(b0: nat, b1: nat, x: int, t: nat, m: nat)
    requires congm(b0 as int, pow(x, t), m as int), exists|q: nat| #[trigger] udiv_ok(b0 * b0, m, q, b1)
    ensures congm(b1 as int, pow(x, 2 * t), m as int)
{
    let q = choose|q: nat| #[trigger] udiv_ok(b0 * b0, m, q, b1);
    lemma_udiv_congm(b0 * b0, m, q, b1);
    assert((b0 * b0) as int == (b0 as int) * (b0 as int)) by (nonlinear_arith);
    lemma_cpow_mul(b1 as int, b0 as int, b0 as int, x, t, t, m as int);
}

/// one step of the closure `unit` of plain_modpow at bit position p >= 1
pub proof fn lemma_unit(b0: nat, b1: nat, a0: nat, a1: nat, a2: nat, odd: bool, x: int, e: nat, p: nat, m: nat)
    requires p >= 1,
        congm(b0 as int, pow(x, p2((p - 1) as nat)), m as int), congm(a0 as int, pow(x, e % p2(p)), m as int),
        exists|q: nat| #[trigger] udiv_ok(b0 * b0, m, q, b1),
        odd == bitv(e, p),
        odd ==> a1 == a0 * b1 && exists|q: nat| #[trigger] udiv_ok(a1, m, q, a2),
        !odd ==> a2 == a0,
    ensures congm(b1 as int, pow(x, p2(p)), m as int), congm(a2 as int, pow(x, e % p2(p + 1)), m as int)
{
    lemma_sq(b0, b1, x, p2((p - 1) as nat), m);
    vstd::arithmetic::power2::lemma_pow2_pos(p);
    vstd::arithmetic::power2::lemma_pow2_pos(p + 1);
    vstd::arithmetic::power2::lemma_pow2_adds((p - 1) as nat, 1);
    vstd::arithmetic::power2::lemma2_to64();
    assert(2 * p2((p - 1) as nat) == p2(p));
    lemma_low_step(e, p);
    if odd {
        let q = choose|q: nat| #[trigger] udiv_ok(a1, m, q, a2);
        lemma_udiv_congm(a1, m, q, a2);
        assert((a0 * b1) as int == (a0 as int) * (b1 as int)) by (nonlinear_arith);
        lemma_cpow_mul(a2 as int, a0 as int, b1 as int, x, e % p2(p), p2(p), m as int);
        assert(e % p2(p + 1) == e % p2(p) + p2(p));
        assert(congm(a2 as int, pow(x, e % p2(p + 1)), m as int));
    } else {
        assert(e % p2(p + 1) == e % p2(p));
    }
}

/// bit c of digit k, read from the running copy r == d >> c
pub proof fn lemma_bit_odd(s: Seq<u64>, k: nat, c: u8, r: u64)
    requires k < s.len(), c < 64, r == s[k as int] >> c
    ensures bitv(val(s), 64 * k + c as nat) == (r as nat % 2 == 1), c < 63 ==> r >> 1u8 == s[k as int] >> ((c + 1) as u8), c == 63 ==> r >> 1u8 == 0
{
    lemma_bit_of_digit(s, k, c as u64);
    let d = s[k as int];
    assert((d >> c) == (d >> (c as u64))) by (bit_vector);
    assert(((d >> c) & 1 == 1) == ((d >> c) % 2 == 1)) by (bit_vector);
    assert(c < 63 ==> (d >> c) >> 1u8 == d >> ((c + 1) as u8)) by (bit_vector);
    assert(c == 63 ==> (d >> c) >> 1u8 == 0) by (bit_vector);
}


//@ extract src/biguint/power.rs :: fn plain_modpow rules=R0,R11,R14n,R28a,R28b,R28c,R2c,R27,R3pa,R3pb,R3mb,R3mc,R10n,R10n,R10e props=C05,C14
fn plain_modpow(base: &BigUint, exp_data: &[BigDigit], modulus: &BigUint) -> /*+*/(res: /*-*/BigUint/*+*/)/*-*/
//+{
    requires base.wf(), modulus.wf(), !mp() ==> modulus.v() != 0
    ensures mp() ==> modulus.v() != 0, res.wf(),
        is_modpow(base.v() as int, val(exp_data@), modulus.v() as int, res.v() as int),
        modulus.v() >= 2 ==> res.v() < modulus.v()
//+}
{
//+{
    let ghost x0 = base.v() as int;
    let ghost mv = modulus.v();
    let ghost ed = exp_data@;
    let ghost ee = val(ed);
    let ghost ll = ed.len();
//+}
    __assert(!modulus.is_zero());

    let i = match __position_nonzero(exp_data) {
        None => /*+*/{ proof { lemma_val_zero_ext(Seq::<u64>::empty(), ed); vstd::arithmetic::power::lemma_pow0(x0); lemma_congm_refl(1, mv as int); } /*-*/return BigUint::one()/*+*/; }/*-*/,
        Some(i) => i,
    };

    let mut base = Rem::rem(base, modulus);
//+{
    let ghost mut pp: nat = 0;
    proof {
        let q = choose|q: nat| #[trigger] udiv_ok(x0 as nat, mv, q, base.v());
        lemma_udiv_congm(x0 as nat, mv, q, base.v());
        vstd::arithmetic::power2::lemma2_to64();
        vstd::arithmetic::power::lemma_pow1(x0);
    }
//+}
    { let mut i__ = 0; let e__ = i; while i__ < e__
//+{
        invariant
            e__ == i, i__ <= e__, pp == 64 * i__, base.wf(), modulus.wf(), mv == modulus.v(), mv != 0, base.v() < mv,
            congm(base.v() as int, pow(x0, p2(pp)), mv as int),
        decreases e__ - i__
//+}
    { i__ += 1;
//+{
        let ghost p0 = pp;
//+}
        { let mut i__ = 0; let e__ = big_digit::BITS; while i__ < e__
//+{
            invariant
                e__ == 64, i__ <= 64, pp == p0 + i__, base.wf(), modulus.wf(), mv == modulus.v(), mv != 0, base.v() < mv,
                congm(base.v() as int, pow(x0, p2(pp)), mv as int),
            decreases e__ - i__
//+}
        { i__ += 1;
//+{
            let ghost b0 = base.v();
//+}
            base = Rem::rem(Mul::mul(&base, &base), modulus);
//+{
            proof {
                lemma_sq(b0, base.v(), x0, p2(pp), mv);
                vstd::arithmetic::power2::lemma_pow2_adds(pp, 1);
                vstd::arithmetic::power2::lemma2_to64();
                pp = pp + 1;
            }
//+}
        } }
    } }

    let mut r = exp_data[i];
    let mut b = 0u8;
//+{
    proof {
        lemma_low_digits_zero(ed, i as nat);
        let d = ed[i as int];
        assert(d >> 0u8 == d) by (bit_vector);
    }
//+}
    while r.is_even()
//+{
        invariant
            b < 64, r == ed[i as int] >> b, r != 0, pp == 64 * i + b, ee % p2(pp) == 0, i < ed.len(), ed == exp_data@, ee == val(ed),
            base.wf(), modulus.wf(), mv == modulus.v(), mv != 0, base.v() < mv,
            congm(base.v() as int, pow(x0, p2(pp)), mv as int),
        decreases r
//+}
    {
//+{
        let ghost b0 = base.v();
        proof {
            lemma_bit_odd(ed, i as nat, b, r);
            lemma_low_step(ee, pp);
            let d = ed[i as int];
            assert(r == d >> b && r != 0 && r % 2 == 0 && b < 64 ==> b < 63 && (r >> 1u8) != 0 && (r >> 1u8) < r) by (bit_vector);
        }
//+}
        base = Rem::rem(Mul::mul(&base, &base), modulus);
        r >>= 1;
        b += 1;
//+{
        proof {
            lemma_sq(b0, base.v(), x0, p2(pp), mv);
            vstd::arithmetic::power2::lemma_pow2_adds(pp, 1);
            vstd::arithmetic::power2::lemma2_to64();
            pp = pp + 1;
        }
//+}
    }
//+{
    proof {
        lemma_bit_odd(ed, i as nat, b, r);
        lemma_low_step(ee, pp);
    }
//+}

    let mut exp_iter: &[BigDigit] = &exp_data[i + 1..];
    if exp_iter.len() == 0 && r.is_one() {
//+{
        proof {
            let d = ed[i as int];
            vstd::arithmetic::power2::lemma2_to64_rest();
            if b < 63 {
                assert(d >> b == 1 && b < 63 ==> d >> ((b + 1) as u8) == 0) by (bit_vector);
                lemma_shr_zero_bound(d, (b + 1) as u8);
            }
            lemma_top_bound(ed, (b + 1) as nat);
            vstd::arithmetic::div_mod::lemma_small_mod(ee, p2(pp + 1));
        }
//+}
        return base;
    }

    let mut acc = base.clone();
    r >>= 1;
    b += 1;
//+{
    proof { pp = pp + 1; }
    let ghost mut kf: nat = i as nat;
    let ghost mut cf: u8 = b;
//+}

    {
        { let (nb__, rest__) = __slice_next_back(exp_iter); exp_iter = rest__; if let Some(x_r__) = nb__ { let last = *x_r__;
            // consume exp_data[i]
            { let mut i__ = b; let e__ = big_digit::BITS; while i__ < e__
//+{
                invariant
                    e__ == 64, i__ <= 64, pp == 64 * i + i__, i__ < 64 ==> r == ed[i as int] >> i__, i < ed.len(),
                    base.wf(), acc.wf(), modulus.wf(), mv == modulus.v(), mv != 0, ed == exp_data@, ee == val(ed), pp >= 1,
                    congm(base.v() as int, pow(x0, p2((pp - 1) as nat)), mv as int), congm(acc.v() as int, pow(x0, ee % p2(pp)), mv as int),
                    base.v() < mv, acc.v() < mv,
                decreases e__ - i__
//+}
            {
//+{
                let ghost c0 = i__;
//+}
                i__ += 1;
                { let exp_is_odd = r.is_odd();
//+{
                    let ghost b0 = base.v();
                    let ghost a0 = acc.v();
                    let ghost mut a1: nat = 0;
                    proof { lemma_bit_odd(ed, i as nat, c0, r); }
//+}
                    { base = Rem::rem(Mul::mul(&base, &base), modulus); if exp_is_odd { MulAssign::mul_assign(&mut acc, &base);
//+{
                        proof { a1 = acc.v(); }
//+}
                        RemAssign::rem_assign(&mut acc, modulus); } }
//+{
                    proof {
                        lemma_unit(b0, base.v(), a0, a1, acc.v(), exp_is_odd, x0, ee, pp, mv);
                        pp = pp + 1;
                    }
//+}
                    }
                r >>= 1;
            } }

            // consume all other digits before the last
            { let mut i__ = 0; while i__ < exp_iter.len()
//+{
                invariant
                    i__ <= exp_iter@.len(), exp_iter@ =~= ed.subrange(i + 1, ed.len() - 1), i + 1 < ed.len(), pp == 64 * (i + 1 + i__),
                    base.wf(), acc.wf(), modulus.wf(), mv == modulus.v(), mv != 0, ed == exp_data@, ee == val(ed), pp >= 1,
                    congm(base.v() as int, pow(x0, p2((pp - 1) as nat)), mv as int), congm(acc.v() as int, pow(x0, ee % p2(pp)), mv as int),
                    base.v() < mv, acc.v() < mv,
                decreases exp_iter@.len() - i__
//+}
            { let r = exp_iter[i__]; i__ += 1;
                let mut r = r;
//+{
                let ghost kk = (i + i__) as nat;
                proof {
                    let d = ed[kk as int];
                    assert(d >> 0u8 == d) by (bit_vector);
                }
//+}
                { let mut i__ = 0; let e__ = big_digit::BITS; while i__ < e__
//+{
                    invariant
                        e__ == 64, i__ <= 64, pp == 64 * kk + i__, i__ < 64 ==> r == ed[kk as int] >> i__, kk < ed.len(),
                        base.wf(), acc.wf(), modulus.wf(), mv == modulus.v(), mv != 0, ed == exp_data@, ee == val(ed), pp >= 1,
                    congm(base.v() as int, pow(x0, p2((pp - 1) as nat)), mv as int), congm(acc.v() as int, pow(x0, ee % p2(pp)), mv as int),
                    base.v() < mv, acc.v() < mv,
                    decreases e__ - i__
//+}
                {
//+{
                    let ghost c0 = i__;
//+}
                    i__ += 1;
                    { let exp_is_odd = r.is_odd();
//+{
                    let ghost b0 = base.v();
                    let ghost a0 = acc.v();
                    let ghost mut a1: nat = 0;
                    proof { lemma_bit_odd(ed, kk, c0, r); }
//+}
                    { base = Rem::rem(Mul::mul(&base, &base), modulus); if exp_is_odd { MulAssign::mul_assign(&mut acc, &base);
//+{
                        proof { a1 = acc.v(); }
//+}
                        RemAssign::rem_assign(&mut acc, modulus); } }
//+{
                    proof {
                        lemma_unit(b0, base.v(), a0, a1, acc.v(), exp_is_odd, x0, ee, pp, mv);
                        pp = pp + 1;
                    }
//+}
                    }
                    r >>= 1;
                } }
            } }
            r = last;
//+{
            proof {
                kf = (ed.len() - 1) as nat;
                cf = 0;
                let d = ed[kf as int];
                assert(d >> 0u8 == d) by (bit_vector);
            }
//+}
        } }

//+{
        let ghost mut c: u8 = cf;
//+}
        while !r.is_zero()
//+{
            invariant
                c <= 64, c < 64 ==> r == ed[kf as int] >> c, c == 64 ==> r == 0, pp == 64 * kf + c, kf + 1 == ed.len(),
                base.wf(), acc.wf(), modulus.wf(), mv == modulus.v(), mv != 0, ed == exp_data@, ee == val(ed), pp >= 1,
                    congm(base.v() as int, pow(x0, p2((pp - 1) as nat)), mv as int), congm(acc.v() as int, pow(x0, ee % p2(pp)), mv as int),
                    base.v() < mv, acc.v() < mv,
            decreases r
//+}
        {
//+{
            let ghost c0 = c;
            proof { assert(r != 0 ==> (r >> 1u8) < r) by (bit_vector); }
//+}
            { let exp_is_odd = r.is_odd();
//+{
                    let ghost b0 = base.v();
                    let ghost a0 = acc.v();
                    let ghost mut a1: nat = 0;
                    proof { lemma_bit_odd(ed, kf, c0, r); }
//+}
                    { base = Rem::rem(Mul::mul(&base, &base), modulus); if exp_is_odd { MulAssign::mul_assign(&mut acc, &base);
//+{
                        proof { a1 = acc.v(); }
//+}
                        RemAssign::rem_assign(&mut acc, modulus); } }
//+{
                    proof {
                        lemma_unit(b0, base.v(), a0, a1, acc.v(), exp_is_odd, x0, ee, pp, mv);
                        pp = pp + 1;
                    }
//+}
                    }
            r >>= 1;
//+{
            proof { c = (c + 1) as u8; }
//+}
        }
//+{
        proof {
            let d = ed[kf as int];
            vstd::arithmetic::power2::lemma2_to64_rest();
            if c < 64 { lemma_shr_zero_bound(d, c); }
            lemma_top_bound(ed, c as nat);
            vstd::arithmetic::div_mod::lemma_small_mod(ee, p2(pp));
        }
//+}
    }
    acc
}
//@ end

//@ extract src/biguint/power.rs :: fn modpow rules=R0,R11 props=C05,C14 label=power_modpow
pub(super) fn modpow(x: &BigUint, exponent: &BigUint, modulus: &BigUint) -> /*+*/(res: /*-*/BigUint/*+*/)/*-*/
//+{
    requires x.wf(), exponent.wf(), modulus.wf(), !mp() ==> modulus.v() != 0
    ensures mp() ==> modulus.v() != 0, res.wf(), res.v() < modulus.v(),
        is_modpow(x.v() as int, exponent.v(), modulus.v() as int, res.v() as int)
//+}
{
    __assert(!modulus.is_zero());

    if modulus.is_odd() {
        // For an odd modulus, we can use Montgomery multiplication in base 2^32.
        monty_modpow(x, exponent, modulus)
    } else {
        // Otherwise do basically the same as `num::pow`, but with a modulus.
        plain_modpow(x, &exponent.data, modulus)
    }
}
//@ end

impl BigUint {
//@ extract src/biguint.rs :: impl BigUint :: fn modpow tysub=power~::~modpow=>modpow props=C05,C14 label=BigUint_modpow
    pub fn modpow(&self, exponent: &Self, modulus: &Self) -> /*+*/(r: /*-*/Self/*+*/)/*-*/
//+{
        requires self.wf(), exponent.wf(), modulus.wf(), !mp() ==> modulus.v() != 0
        ensures mp() ==> modulus.v() != 0, r.wf(), r.v() < modulus.v(), is_modpow(self.v() as int, exponent.v(), modulus.v() as int, r.v() as int)
//+}
    {
        modpow(self, exponent, modulus)
    }
//@ end
}

} // mod u
} // verus!
fn main() {}
