//@ unit k_mul : multiplication digit kernels (src/biguint/multiplication.rs, src/lib.rs big_digit)
#![feature(allocator_api)]
use vstd::prelude::*;
use vstd::std_specs::iter::IteratorSpec;
verus! {
//@ include prelude/core.rs
//@ include prelude/chains.rs
//@ include prelude/std_specs.rs
//@ include prelude/panic.rs
//@ include prelude/macroom.rs
pub mod u {
use super::*;

pub mod big_digit {
    use vstd::prelude::*;
    use super::*;
    pub type BigDigit = u64;
    pub type DoubleBigDigit = u128;
//@ extract src/lib.rs :: mod big_digit :: const BITS
    pub(crate) const BITS: u8 = BigDigit::BITS as u8;
//@ end
//@ extract src/lib.rs :: mod big_digit :: const MAX
    pub(crate) const MAX: BigDigit = BigDigit::MAX;
//@ end
//@ extract src/lib.rs :: mod big_digit :: const LO_MASK
    const LO_MASK: DoubleBigDigit = MAX as DoubleBigDigit;
//@ end

//@ extract src/lib.rs :: mod big_digit :: fn get_hi props=C02
    fn get_hi(n: DoubleBigDigit) -> /*+*/(r: /*-*/BigDigit/*+*/)/*-*/
//+{
        ensures r as nat == (n as nat) / B()
//+}
    {
//+{
        proof { assert((n >> 64u8) == n / 0x1_0000_0000_0000_0000u128) by (bit_vector); assert((n >> 64u8) <= 0xffff_ffff_ffff_ffffu128) by (bit_vector); }
//+}
        (n >> BITS) as BigDigit
    }
//@ end
//@ extract src/lib.rs :: mod big_digit :: fn get_lo props=C02
    fn get_lo(n: DoubleBigDigit) -> /*+*/(r: /*-*/BigDigit/*+*/)/*-*/
//+{
        ensures r as nat == (n as nat) % B()
//+}
    {
//+{
        proof { assert((n & 0xffff_ffff_ffff_ffffu128) == n % 0x1_0000_0000_0000_0000u128) by (bit_vector); }
//+}
        (n & LO_MASK) as BigDigit
    }
//@ end
//@ extract src/lib.rs :: mod big_digit :: fn to_doublebigdigit props=C02,C03
    pub(crate) fn to_doublebigdigit(hi: BigDigit, lo: BigDigit) -> /*+*/(r: /*-*/DoubleBigDigit/*+*/)/*-*/
//+{
        ensures r as nat == (hi as nat) * B() + (lo as nat)
//+}
    {
//+{
        proof {
            let l = lo as u128; let h = hi as u128;
            assert(l <= 0xffff_ffff_ffff_ffffu128 && h <= 0xffff_ffff_ffff_ffffu128 ==> (l | (h << 64u8)) == l + h * 0x1_0000_0000_0000_0000u128) by (bit_vector);
        }
//+}
        DoubleBigDigit::from(lo) | (DoubleBigDigit::from(hi) << BITS)
    }
//@ end
//@ extract src/lib.rs :: mod big_digit :: fn from_doublebigdigit props=C02
    pub(crate) fn from_doublebigdigit(n: DoubleBigDigit) -> /*+*/(r: /*-*/(BigDigit, BigDigit)/*+*/)/*-*/
//+{
        ensures (r.0 as nat) * B() + (r.1 as nat) == n as nat, r.0 as nat == (n as nat) / B()
//+}
    {
//+{
        proof { assert((n as nat) == ((n as nat) / B()) * B() + (n as nat) % B()) by (nonlinear_arith) requires B() > 0; }
//+}
        (get_hi(n), get_lo(n))
    }
//@ end
}
use big_digit::DoubleBigDigit;

//@ stub k_add/__add2

//@ extract src/biguint/multiplication.rs :: fn mac_with_carry props=C02,C14
pub(super) fn mac_with_carry(
    a: BigDigit,
    b: BigDigit,
    c: BigDigit,
    acc: &mut DoubleBigDigit,
) -> /*+*/(lo: /*-*/BigDigit/*+*/)/*-*/
//+{
    requires *old(acc) <= 0xffff_ffff_ffff_ffffu128,
    ensures (lo as nat) + B() * (*final(acc) as nat) == (a as nat) + (b as nat) * (c as nat) + (*old(acc) as nat),
            *final(acc) <= 0xffff_ffff_ffff_ffffu128,
//+}
{
//+{
    proof {
        assert((b as u128) * (c as u128) <= 0xffff_ffff_ffff_ffffu128 * 0xffff_ffff_ffff_ffffu128) by (nonlinear_arith)
            requires b <= 0xffff_ffff_ffff_ffffu64, c <= 0xffff_ffff_ffff_ffffu64;
    }
//+}
    *acc += DoubleBigDigit::from(a);
    *acc += DoubleBigDigit::from(b) * DoubleBigDigit::from(c);
    let lo = *acc as BigDigit;
//+{
    let ghost before = *acc;
//+}
    *acc >>= big_digit::BITS;
//+{
    proof {
        assert(lo as u128 == before & 0xffff_ffff_ffff_ffffu128) by (bit_vector) requires lo == before as u64;
        assert((before >> 64u8) * 0x1_0000_0000_0000_0000u128 + (before & 0xffff_ffff_ffff_ffffu128) == before) by (bit_vector);
        assert((before >> 64u8) <= 0xffff_ffff_ffff_ffffu128) by (bit_vector);
    }
//+}
    lo
}
//@ end

//@ extract src/biguint/multiplication.rs :: fn mul_with_carry props=C02,C14
fn mul_with_carry(a: BigDigit, b: BigDigit, acc: &mut DoubleBigDigit) -> /*+*/(lo: /*-*/BigDigit/*+*/)/*-*/
//+{
    requires *old(acc) <= 0xffff_ffff_ffff_ffffu128,
    ensures (lo as nat) + B() * (*final(acc) as nat) == (a as nat) * (b as nat) + (*old(acc) as nat),
            *final(acc) <= 0xffff_ffff_ffff_ffffu128,
//+}
{
//+{
    proof {
        assert((a as u128) * (b as u128) <= 0xffff_ffff_ffff_ffffu128 * 0xffff_ffff_ffff_ffffu128) by (nonlinear_arith)
            requires a <= 0xffff_ffff_ffff_ffffu64, b <= 0xffff_ffff_ffff_ffffu64;
    }
//+}
    *acc += DoubleBigDigit::from(a) * DoubleBigDigit::from(b);
    let lo = *acc as BigDigit;
//+{
    let ghost before = *acc;
//+}
    *acc >>= big_digit::BITS;
//+{
    proof {
        assert(lo as u128 == before & 0xffff_ffff_ffff_ffffu128) by (bit_vector) requires lo == before as u64;
        assert((before >> 64u8) * 0x1_0000_0000_0000_0000u128 + (before & 0xffff_ffff_ffff_ffffu128) == before) by (bit_vector);
        assert((before >> 64u8) <= 0xffff_ffff_ffff_ffffu128) by (bit_vector);
    }
//+}
    lo
}
//@ end

pub proof fn lemma_mac_step(f: Seq<u64>, o: Seq<u64>, b: Seq<u64>, c: nat, k: nat, c0: nat, c1: nat)
    requires k < f.len(), k < o.len(), k < b.len(),
        valp(f, k) + pw(k) * c0 == valp(o, k) + valp(b, k) * c,
        (f[k as int] as nat) + B() * c1 == (o[k as int] as nat) + (b[k as int] as nat) * c + c0,
    ensures valp(f, k + 1) + pw(k + 1) * c1 == valp(o, k + 1) + valp(b, k + 1) * c
{
    assert(pw(k + 1) == B() * pw(k));
    let p = pw(k);
    let fk = f[k as int] as nat; let ok = o[k as int] as nat; let bk = b[k as int] as nat;
    assert(fk * p + (B() * p) * c1 == ok * p + (bk * p) * c + p * c0) by (nonlinear_arith)
        requires fk + B() * c1 == ok + bk * c + c0;
    assert((valp(b, k) + bk * p) * c == valp(b, k) * c + (bk * p) * c) by (nonlinear_arith);
}

pub proof fn lemma_mac_final(oa: Seq<u64>, olo: Seq<u64>, ohi: Seq<u64>, fa: Seq<u64>, flo: Seq<u64>, fhi: Seq<u64>, bs: Seq<u64>, c: nat, carry: nat, fc: nat)
    requires
        oa =~= olo + ohi, fa =~= flo + fhi, flo.len() == olo.len(), fhi.len() == ohi.len(), bs.len() == olo.len(),
        val(flo) + pw(olo.len()) * carry == val(olo) + val(bs) * c,
        val(fhi) + pw(ohi.len()) * fc == val(ohi) + carry,
    ensures val(fa) + pw(oa.len()) * fc == val(oa) + val(bs) * c
{
    let n = olo.len();
    let h = ohi.len();
    lemma_val_concat(olo, ohi);
    lemma_val_concat(flo, fhi);
    lemma_pw_add(n, h);
    assert(pw(n) * (val(fhi) + pw(h) * fc) == pw(n) * val(fhi) + (pw(n) * pw(h)) * fc) by (nonlinear_arith);
    assert(pw(n) * (val(ohi) + carry) == pw(n) * val(ohi) + pw(n) * carry) by (nonlinear_arith);
}

//@ extract src/biguint/multiplication.rs :: fn mac_digit rules=R0,R10y,R11e props=C02,C14
fn mac_digit(acc: &mut [BigDigit], b: &[BigDigit], c: BigDigit)
//+{
    requires
        old(acc).len() > b.len(),
        val(old(acc)@) + val(b@) * (c as nat) < pw(old(acc).len() as nat),
    ensures
        final(acc).len() == old(acc).len(),
        val(final(acc)@) == val(old(acc)@) + val(b@) * (c as nat),
//+}
{
    if c == 0 {
//+{
        proof { assert(val(b@) * 0 == 0) by (nonlinear_arith); }
//+}
        return;
    }
//+{
    let ghost oa = old(acc)@;
    let ghost fa = final(acc)@;
    let ghost bs = b@;
    let ghost n = b.len() as nat;
//+}

    let mut carry = 0;
    let (a_lo, a_hi) = acc.split_at_mut(b.len());
//+{
    let ghost olo = a_lo@;
    let ghost ohi = a_hi@;
    proof {
        assert(olo =~= oa.subrange(0, n as int));
        assert(ohi =~= oa.subrange(n as int, oa.len() as int));
        assert(oa =~= olo + ohi);
        assert(valp(bs, 0) * (c as nat) == 0) by (nonlinear_arith) requires valp(bs, 0) == 0;
        assert(pw(0) * 0 == 0) by (nonlinear_arith);
    }
//+}

    { let mut i__ = 0 ; let n__ = Ord::min(a_lo.len(), b.len()) ; while i__ < n__
//+{
        invariant
            a_lo@.len() == n, olo.len() == n, bs.len() == n, bs == b@, n__ == n, i__ <= n,
            carry <= 0xffff_ffff_ffff_ffffu128,
            forall|j: int| i__ <= j < n ==> a_lo@[j] == olo[j],
            valp(a_lo@, i__ as nat) + pw(i__ as nat) * (carry as nat) == valp(olo, i__ as nat) + valp(bs, i__ as nat) * (c as nat),
        decreases n - i__
//+}
    {
//+{
        let ghost prev = a_lo@;
        let ghost k = i__ as nat;
        let ghost c0 = carry;
//+}
        let a = &mut a_lo[i__] ; let b = b[i__] ; i__ += 1 ;
        *a = mac_with_carry(*a, b, c, &mut carry);
//+{
        proof {
            lemma_valp_ext(prev, a_lo@, k);
            lemma_mac_step(a_lo@, olo, bs, c as nat, k, c0 as nat, carry as nat);
        }
//+}
    }
//+{
    proof { assert(i__ == n); }
//+}
    }
//+{
    let ghost flo = a_lo@;
//+}

    let (carry_hi, carry_lo) = big_digit::from_doublebigdigit(carry);
//+{
    proof {
        assert(carry_hi == 0) by (nonlinear_arith) requires (carry_hi as nat) * B() + (carry_lo as nat) == carry as nat, (carry as nat) < B(), B() > 0;
        assert([carry_lo]@ =~= seq![carry_lo]);
        lemma_val_single(carry_lo);
    }
//+}

    let final_carry = if carry_hi == 0 {
        __add2(a_hi, &[carry_lo])
    } else {
        __add2(a_hi, &[carry_hi, carry_lo])
    };
//+{
    proof {
        let fhi = a_hi@;
        assert(fa =~= flo + fhi);
        lemma_mac_final(oa, olo, ohi, fa, flo, fhi, bs, c as nat, carry as nat, final_carry as nat);
        lemma_valp_bound(fa, fa.len());
        if final_carry != 0 {
            assert(pw(oa.len()) * (final_carry as nat) >= pw(oa.len())) by (nonlinear_arith) requires final_carry >= 1;
        } else {
            assert(pw(oa.len()) * 0 == 0) by (nonlinear_arith);
        }
    }
//+}
    __assert(final_carry == 0);
}
//@ end

//@ extract src/biguint.rs :: struct BigUint
pub struct BigUint {
    data: Vec<BigDigit>,
}
//@ end
//@ include prelude/biguint_view.rs
impl BigUint {
//@ stub u_core/normalized
//@ stub u_core/set_zero
}

//@ stub k_mac3/mac3

pub open spec fn p2(k: nat) -> nat { vstd::arithmetic::power2::pow2(k) }
impl vstd::std_specs::ops::ShlAssignSpecImpl<u32> for BigUint {
    open spec fn obeys_shl_assign_spec() -> bool { false }
    open spec fn shl_assign_req(&self, rhs: u32) -> bool { self.wf() }
    open spec fn shl_assign_spec(&self, rhs: u32) -> &BigUint { arbitrary() }
}
impl core::ops::ShlAssign<u32> for BigUint {
//@ stub u_shiftops/shl_assign_u32
}

pub proof fn lemma_prod_bound(x: Seq<u64>, y: Seq<u64>)
    ensures val(x) * val(y) < pw(x.len() + y.len() + 1), pw(x.len() + y.len() + 1) >= 1
{
    lemma_valp_bound(x, x.len());
    lemma_valp_bound(y, y.len());
    lemma_pw_add(x.len(), y.len());
    lemma_pw_mono(x.len() + y.len(), x.len() + y.len() + 1);
    let a = val(x); let b = val(y); let pa = pw(x.len()); let pb = pw(y.len());
    assert(a * b < pa * pb) by (nonlinear_arith) requires a < pa, b < pb;
    lemma_pw_pos(x.len() + y.len() + 1);
}

//@ extract src/biguint/multiplication.rs :: fn mul3 props=C02,C04
fn mul3(x: &[BigDigit], y: &[BigDigit]) -> /*+*/(r: /*-*/BigUint/*+*/)/*-*/
//+{
    requires x.len() + y.len() + 1 <= usize::MAX
    ensures r.wf(), r.v() == val(x@) * val(y@)
//+}
{
    let len = x.len() + y.len() + 1;
    let mut prod = BigUint { data: vec![0; len] };
//+{
    proof {
        lemma_valp_zeros(prod.data@, len as nat);
        lemma_prod_bound(x@, y@);
        lemma_valp_bound(x@, x@.len()); lemma_valp_bound(y@, y@.len());
        lemma_room_zero(val(x@), val(y@), x@.len(), y@.len(), len as nat);
    }
//+}

    mac3(&mut prod.data, x, y);
    prod.normalized()
}
//@ end

pub proof fn lemma_mul_step(f: Seq<u64>, o: Seq<u64>, c: nat, k: nat, c0: nat, c1: nat)
    requires k < f.len(), k < o.len(),
        valp(f, k) + pw(k) * c0 == valp(o, k) * c,
        (f[k as int] as nat) + B() * c1 == (o[k as int] as nat) * c + c0,
    ensures valp(f, k + 1) + pw(k + 1) * c1 == valp(o, k + 1) * c
{
    assert(pw(k + 1) == B() * pw(k));
    let p = pw(k);
    let fk = f[k as int] as nat; let ok = o[k as int] as nat;
    assert(fk * p + (B() * p) * c1 == (ok * p) * c + p * c0) by (nonlinear_arith)
        requires fk + B() * c1 == ok * c + c0;
    assert((valp(o, k) + ok * p) * c == valp(o, k) * c + (ok * p) * c) by (nonlinear_arith);
}

//@ extract src/biguint/multiplication.rs :: fn scalar_mul rules=R0,R10w props=C02,C04,C14
fn scalar_mul(a: &mut BigUint, b: BigDigit)
//+{
    requires old(a).wf()
    ensures final(a).wf(), final(a).v() == old(a).v() * (b as nat)
//+}
{
//+{
    let ghost s0 = a.data@;
    proof {
        assert(val(s0) * 0 == 0) by (nonlinear_arith);
        assert(val(s0) * 1 == val(s0)) by (nonlinear_arith);
    }
//+}
    match b {
        0 => a.set_zero(),
        1 => {}
        _ => {
            if b.is_power_of_two() {
//+{
                proof { lemma_pow2_tz(b); }
//+}
                *a <<= b.trailing_zeros();
            } else {
                let mut carry = 0;
//+{
                let ghost n = s0.len();
                proof { assert(valp(s0, 0) * (b as nat) == 0) by (nonlinear_arith) requires valp(s0, 0) == 0; assert(pw(0) * 0 == 0) by (nonlinear_arith); }
//+}
                { let mut i__ = 0 ; while i__ < a.data.len()
//+{
                    invariant
                        a.data@.len() == n, s0.len() == n, i__ <= n, b >= 2, wf(s0),
                        carry <= 0xffff_ffff_ffff_ffffu128,
                        forall|j: int| i__ <= j < n ==> a.data@[j] == s0[j],
                        valp(a.data@, i__ as nat) + pw(i__ as nat) * (carry as nat) == valp(s0, i__ as nat) * (b as nat),
                    decreases n - i__
//+}
                {
//+{
                    let ghost prev = a.data@;
                    let ghost k = i__ as nat;
                    let ghost c0 = carry;
//+}
                    { let a = &mut a.data.as_mut_slice()[i__] ; i__ += 1 ;
                    *a = mul_with_carry(*a, b, &mut carry);
                    }
//+{
                    proof {
                        lemma_valp_ext(prev, a.data@, k);
                        lemma_mul_step(a.data@, s0, b as nat, k, c0 as nat, carry as nat);
                    }
//+}
                }
//+{
                proof { assert(i__ == n); }
//+}
                }
//+{
                let ghost f = a.data@;
                proof {
                    lemma_val_push(f, carry as u64);
                    lemma_scalar_top(s0, f, b as nat, carry as nat);
                }
//+}
                if carry != 0 {
                    a.data.push(carry as BigDigit);
                }
            }
        }
    }
}
//@ end

/// after a full pass val(f) + B^n*carry == val(s0)*b with wf(s0), b >= 2: either carry != 0 (pushed as top digit) or the top digit of f is non-zero
pub proof fn lemma_scalar_top(s0: Seq<u64>, f: Seq<u64>, b: nat, carry: nat)
    requires wf(s0), f.len() == s0.len(), b >= 1, val(f) + pw(s0.len()) * carry == val(s0) * b
    ensures carry == 0 ==> wf(f) && val(f) == val(s0) * b
{
    if carry == 0 {
        assert(pw(s0.len()) * 0 == 0) by (nonlinear_arith);
        if s0.len() > 0 {
            lemma_wf_lower(s0);
            let v = val(s0);
            assert(v * b >= v) by (nonlinear_arith) requires b >= 1;
            lemma_top_nonzero(f);
        }
    }
}

} // mod u
} // verus!
fn main() {}
