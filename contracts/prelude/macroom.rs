// precondition vocabulary of mac3 (src/biguint/multiplication.rs), shared by its proof (unit k_mac3) and its callers (unit k_mul)
/// the precondition of mac3: room for the product and for the largest transient excess (Karatsuba's cross term)
pub open spec fn slack(lx: nat, ly: nat) -> nat { if lx + ly == 0 { 1 } else { pw((lx + ly - 1) as nat) } }
pub open spec fn mac_room(a: nat, x: nat, y: nat, lx: nat, ly: nat, la: nat) -> bool {
    la >= lx + ly + 1 && a + x * y + slack(lx, ly) < pw(la)
}

pub proof fn lemma_mul_le(a: nat, b: nat, c: nat, d: nat)
    requires a <= c, b <= d
    ensures a * b <= c * d
{
    assert(a * b <= c * d) by (nonlinear_arith) requires a <= c, b <= d;
}

pub proof fn lemma_mul_lt(a: nat, b: nat, c: nat, d: nat)
    requires a < c, b < d
    ensures a * b < c * d
{
    assert(a * b < c * d) by (nonlinear_arith) requires a < c, b < d;
}

/// products of operands bounded by their lengths
pub proof fn lemma_prod_lt(x: nat, y: nat, lx: nat, ly: nat)
    requires x < pw(lx), y < pw(ly)
    ensures x * y < pw(lx + ly), x * y + slack(lx, ly) < pw(lx + ly + 1), slack(lx, ly) <= pw(lx + ly)
{
    lemma_mul_lt(x, y, pw(lx), pw(ly));
    lemma_pw_add(lx, ly);
    if lx + ly >= 1 { lemma_pw_mono((lx + ly - 1) as nat, lx + ly); }
    assert(pw(lx + ly + 1) == B() * pw(lx + ly));
    assert(x * y + slack(lx, ly) < B() * pw(lx + ly)) by (nonlinear_arith)
        requires x * y < pw(lx + ly), slack(lx, ly) <= pw(lx + ly), B() >= 2;
}

/// a fresh zero buffer of lx+ly+1 (or more) digits has room
pub proof fn lemma_room_zero(x: nat, y: nat, lx: nat, ly: nat, la: nat)
    requires x < pw(lx), y < pw(ly), la >= lx + ly + 1
    ensures mac_room(0, x, y, lx, ly, la)
{
    lemma_prod_lt(x, y, lx, ly);
    lemma_pw_mono(lx + ly + 1, la);
}

