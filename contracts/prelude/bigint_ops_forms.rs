// BigInt operator forms used by BigInt-level algorithms. `proved` = contract discharged in the named unit;
// `leaf/forwarder` = scalar leaf or macro forwarder, agreement with the canonical form is C10's business (engine F + leaf units).
impl AddSpecImpl<&BigInt> for BigInt {
    open spec fn obeys_add_spec() -> bool { false }
    open spec fn add_req(self, rhs: &BigInt) -> bool { self.wfi() && rhs.wfi() }
    open spec fn add_spec(self, rhs: &BigInt) -> BigInt { arbitrary() }
}
impl Add<&BigInt> for BigInt {
    type Output = BigInt;
//@ stub i_addsub/add_vr
}
impl SubSpecImpl<&BigInt> for BigInt {
    open spec fn obeys_sub_spec() -> bool { false }
    open spec fn sub_req(self, rhs: &BigInt) -> bool { self.wfi() && rhs.wfi() }
    open spec fn sub_spec(self, rhs: &BigInt) -> BigInt { arbitrary() }
}
impl Sub<&BigInt> for BigInt {
    type Output = BigInt;
//@ stub i_addsub/sub_vr
}
impl SubSpecImpl<BigInt> for &BigInt {
    open spec fn obeys_sub_spec() -> bool { false }
    open spec fn sub_req(self, rhs: BigInt) -> bool { self.wfi() && rhs.wfi() }
    open spec fn sub_spec(self, rhs: BigInt) -> BigInt { arbitrary() }
}
impl Sub<BigInt> for &BigInt {
    type Output = BigInt;
//@ stub i_addsub/sub_rv
}
impl AddSpecImpl<u32> for BigInt {
    open spec fn obeys_add_spec() -> bool { false }
    open spec fn add_req(self, rhs: u32) -> bool { self.wfi() }
    open spec fn add_spec(self, rhs: u32) -> BigInt { arbitrary() }
}
impl Add<u32> for BigInt {
    type Output = BigInt;
    //@ assume BigInt:Add<u32> : scalar leaf (src/bigint/addition.rs), unit pending; contract = canonical addition of the converted scalar
    #[verifier::external_body]
    fn add(self, other: u32) -> (r: BigInt) ensures r.wfi(), r.iv() == self.iv() + other as int { unimplemented!() }
}
impl SubSpecImpl<u32> for BigInt {
    open spec fn obeys_sub_spec() -> bool { false }
    open spec fn sub_req(self, rhs: u32) -> bool { self.wfi() }
    open spec fn sub_spec(self, rhs: u32) -> BigInt { arbitrary() }
}
impl Sub<u32> for BigInt {
    type Output = BigInt;
    //@ assume BigInt:Sub<u32> : scalar leaf (src/bigint/subtraction.rs), unit pending
    #[verifier::external_body]
    fn sub(self, other: u32) -> (r: BigInt) ensures r.wfi(), r.iv() == self.iv() - other as int { unimplemented!() }
}
impl AddSpecImpl<i32> for BigInt {
    open spec fn obeys_add_spec() -> bool { false }
    open spec fn add_req(self, rhs: i32) -> bool { self.wfi() }
    open spec fn add_spec(self, rhs: i32) -> BigInt { arbitrary() }
}
impl Add<i32> for BigInt {
    type Output = BigInt;
    //@ assume BigInt:Add<i32> : scalar leaf via checked_uabs (src/bigint/addition.rs), unit pending
    #[verifier::external_body]
    fn add(self, other: i32) -> (r: BigInt) ensures r.wfi(), r.iv() == self.iv() + other as int { unimplemented!() }
}
impl SubSpecImpl<i32> for BigInt {
    open spec fn obeys_sub_spec() -> bool { false }
    open spec fn sub_req(self, rhs: i32) -> bool { self.wfi() }
    open spec fn sub_spec(self, rhs: i32) -> BigInt { arbitrary() }
}
impl Sub<i32> for BigInt {
    type Output = BigInt;
    //@ assume BigInt:Sub<i32> : scalar leaf via checked_uabs (src/bigint/subtraction.rs), unit pending
    #[verifier::external_body]
    fn sub(self, other: i32) -> (r: BigInt) ensures r.wfi(), r.iv() == self.iv() - other as int { unimplemented!() }
}
