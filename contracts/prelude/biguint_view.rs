// View of BigUint: the natural number denoted by its digit vector, and the representation invariant.
impl BigUint {
    pub closed spec fn v(&self) -> nat { val(self.data@) }
    pub closed spec fn wf(&self) -> bool { wf(self.data@) }
    /// digit sequence (for contracts of `pub` functions, which may not mention the private field)
    pub closed spec fn dg(&self) -> Seq<u64> { self.data@ }
}

/// stripping most-significant zeros keeps the value
pub proof fn lemma_val_strip(s: Seq<u64>, k: nat)
    requires k <= s.len(), forall|j: int| k <= j < s.len() ==> s[j] == 0
    ensures val(s.subrange(0, k as int)) == val(s)
    decreases s.len() - k
{
    if k < s.len() {
        let t = s.drop_last();
        lemma_val_drop_last_zero(s);
        lemma_val_strip(t, k);
        assert(t.subrange(0, k as int) =~= s.subrange(0, k as int));
    } else {
        assert(s.subrange(0, k as int) =~= s);
    }
}

/// if s and its prefix of length k denote the same number, the digits from k on are zero
pub proof fn lemma_stripped_zero(s: Seq<u64>, k: nat, i: int)
    requires k <= i < s.len(), val(s.subrange(0, k as int)) == val(s)
    ensures s[i] == 0
{
    let p = s.subrange(0, k as int);
    let t = s.subrange(k as int, s.len() as int);
    assert(s =~= p + t);
    lemma_val_concat(p, t);
    lemma_pw_pos(k);
    assert(pw(k) * val(t) == 0);
    assert(val(t) == 0) by (nonlinear_arith) requires pw(k) * val(t) == 0, pw(k) >= 1;
    lemma_valp_zero_iff(t, t.len());
    assert(t[i - k] == s[i]);
}
