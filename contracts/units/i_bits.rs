//@ unit i_bits : BigInt &=, |=, ^= : representation invariant (canonical magnitude, NoSign <=> 0) after every sign case (src/bigint/bits.rs)
#![feature(allocator_api)]
use vstd::prelude::*;
use vstd::std_specs::iter::IteratorSpec;
use vstd::std_specs::ops::*;
use core::ops::{BitAndAssign, BitOrAssign, BitXorAssign, Neg};
verus! {
//@ include prelude/core.rs
//@ include prelude/std_specs.rs
//@ include prelude/bitdigits.rs
//@ include prelude/val32.rs
//@ extract src/bigint.rs :: enum Sign attrs=1
#[derive(/*+*/Structural, /*-*/PartialEq, PartialOrd, Eq, Ord, Copy, Clone, Debug, Hash)]
pub enum Sign {
    Minus,
    NoSign,
    Plus,
}
//@ end
pub mod u {
use super::*;
use Sign::*;

//@ extract src/biguint.rs :: struct BigUint
pub struct BigUint {
    data: Vec<BigDigit>,
}
//@ end
//@ include prelude/biguint_view.rs
impl BigUint {
//@ extract src/biguint.rs :: impl BigUint :: const ZERO rules=R9,R13 label=BigUint_ZERO
    exec const ZERO: Self /*+*/ensures Self::ZERO.data@.len() == 0 /*-*/{ BigUint { data: Vec::new() } }
//@ end
//@ stub u_core/is_zero
//@ stub u_core/set_zero
//@ stub u_core/normalize
//@ stub u_core/clone
    // contract-only re-homing of `IntDigits for BigUint` accessors (proved here: one-line bodies)
//@ extract src/biguint.rs :: impl IntDigits for BigUint :: fn digits props=C04
    fn digits(&self) -> /*+*/(r: /*-*/&[BigDigit]/*+*/)/*-*/
//+{
        ensures r@ == self.data@
//+}
    {
        &self.data
    }
//@ end
//@ extract src/biguint.rs :: impl IntDigits for BigUint :: fn digits_mut props=C04
    fn digits_mut(&mut self) -> /*+*/(r: /*-*/&mut Vec<BigDigit>/*+*/)/*-*/
//+{
        ensures *r == old(self).data, final(self).data == *final(r)
//+}
    {
        &mut self.data
    }
//@ end
    //@ assume BigUint::clone_from : `self.data.clone_from(&other.data)` (Vec::clone_from has no vstd spec); contract: becomes a copy
    #[verifier::external_body]
    fn clone_from(&mut self, other: &Self)
        ensures final(self).data@ == other.data@
    { unimplemented!() }
}
impl BitAndAssignSpecImpl<&BigUint> for BigUint {
    open spec fn obeys_bitand_assign_spec() -> bool { false }
    open spec fn bitand_assign_req(&self, rhs: &BigUint) -> bool { true }
    open spec fn bitand_assign_spec(&self, rhs: &BigUint) -> &BigUint { arbitrary() }
}
impl BitOrAssignSpecImpl<&BigUint> for BigUint {
    open spec fn obeys_bitor_assign_spec() -> bool { false }
    open spec fn bitor_assign_req(&self, rhs: &BigUint) -> bool { self.wf() && rhs.wf() }
    open spec fn bitor_assign_spec(&self, rhs: &BigUint) -> &BigUint { arbitrary() }
}
impl BitXorAssignSpecImpl<&BigUint> for BigUint {
    open spec fn obeys_bitxor_assign_spec() -> bool { false }
    open spec fn bitxor_assign_req(&self, rhs: &BigUint) -> bool { true }
    open spec fn bitxor_assign_spec(&self, rhs: &BigUint) -> &BigUint { arbitrary() }
}
impl BitAndAssign<&BigUint> for BigUint {
//@ stub u_bits/bitand_assign
}
impl BitOrAssign<&BigUint> for BigUint {
//@ stub u_bits/bitor_assign
}
impl BitXorAssign<&BigUint> for BigUint {
//@ stub u_bits/bitxor_assign
}

//@ extract src/bigint.rs :: struct BigInt
pub struct BigInt {
    sign: Sign,
    data: BigUint,
}
//@ end
//@ include prelude/bigint_view.rs

// the nine two's-complement digit routines: bodies not under contract here (their effect on the VALUE is C07's
// business and is not decided); what this unit needs from them is nothing at all -- the invariant is re-established
// by the caller's normalize().
//@ assume bitand_pos_neg : digit routine, no postcondition assumed
#[verifier::external_body]
fn bitand_pos_neg(a: &mut [BigDigit], b: &[BigDigit]) { unimplemented!() }
//@ assume bitand_neg_pos : digit routine, no postcondition assumed
#[verifier::external_body]
fn bitand_neg_pos(a: &mut Vec<BigDigit>, b: &[BigDigit]) { unimplemented!() }
//@ assume bitand_neg_neg : digit routine, no postcondition assumed
#[verifier::external_body]
fn bitand_neg_neg(a: &mut Vec<BigDigit>, b: &[BigDigit]) { unimplemented!() }
//@ assume bitor_pos_neg : digit routine, no postcondition assumed
#[verifier::external_body]
fn bitor_pos_neg(a: &mut Vec<BigDigit>, b: &[BigDigit]) { unimplemented!() }
//@ assume bitor_neg_pos : digit routine, no postcondition assumed
#[verifier::external_body]
fn bitor_neg_pos(a: &mut [BigDigit], b: &[BigDigit]) { unimplemented!() }
//@ assume bitor_neg_neg : digit routine, no postcondition assumed
#[verifier::external_body]
fn bitor_neg_neg(a: &mut Vec<BigDigit>, b: &[BigDigit]) { unimplemented!() }
//@ assume bitxor_pos_neg : digit routine, no postcondition assumed
#[verifier::external_body]
fn bitxor_pos_neg(a: &mut Vec<BigDigit>, b: &[BigDigit]) { unimplemented!() }
//@ assume bitxor_neg_pos : digit routine, no postcondition assumed
#[verifier::external_body]
fn bitxor_neg_pos(a: &mut Vec<BigDigit>, b: &[BigDigit]) { unimplemented!() }
//@ assume bitxor_neg_neg : digit routine, no postcondition assumed
#[verifier::external_body]
fn bitxor_neg_neg(a: &mut Vec<BigDigit>, b: &[BigDigit]) { unimplemented!() }

impl BigInt {
//@ stub i_core/set_zero
//@ stub i_core/bigint_normalize
    // contract-only re-homing of `IntDigits for BigInt` accessors and Clone::clone_from
//@ extract src/bigint.rs :: impl IntDigits for BigInt :: fn digits props=C04 label=bigint_digits
    fn digits(&self) -> /*+*/(r: /*-*/&[BigDigit]/*+*/)/*-*/
//+{
        ensures r@ == self.data.dg()
//+}
    {
        self.data.digits()
    }
//@ end
//@ extract src/bigint.rs :: impl IntDigits for BigInt :: fn digits_mut props=C04 label=bigint_digits_mut
    fn digits_mut(&mut self) -> /*+*/(r: /*-*/&mut Vec<BigDigit>/*+*/)/*-*/
//+{
        ensures r@ == old(self).data.dg(), final(self).data.dg() == final(r)@, final(self).sign == old(self).sign
//+}
    {
        self.data.digits_mut()
    }
//@ end
//@ extract src/bigint.rs :: impl Clone for BigInt :: fn clone_from props=C04 label=bigint_clone_from
    fn clone_from(&mut self, other: &Self)
//+{
        ensures final(self).wfi() == other.wfi(), final(self).iv() == other.iv()
//+}
    {
        self.sign = other.sign;
        self.data.clone_from(&other.data);
    }
//@ end
}

impl BitAndAssignSpecImpl<&BigInt> for BigInt {
    open spec fn obeys_bitand_assign_spec() -> bool { false }
    open spec fn bitand_assign_req(&self, rhs: &BigInt) -> bool { self.wfi() && rhs.wfi() }
    open spec fn bitand_assign_spec(&self, rhs: &BigInt) -> &BigInt { arbitrary() }
}
impl BitOrAssignSpecImpl<&BigInt> for BigInt {
    open spec fn obeys_bitor_assign_spec() -> bool { false }
    open spec fn bitor_assign_req(&self, rhs: &BigInt) -> bool { self.wfi() && rhs.wfi() }
    open spec fn bitor_assign_spec(&self, rhs: &BigInt) -> &BigInt { arbitrary() }
}
impl BitXorAssignSpecImpl<&BigInt> for BigInt {
    open spec fn obeys_bitxor_assign_spec() -> bool { false }
    open spec fn bitxor_assign_req(&self, rhs: &BigInt) -> bool { self.wfi() && rhs.wfi() }
    open spec fn bitxor_assign_spec(&self, rhs: &BigInt) -> &BigInt { arbitrary() }
}

impl BitAndAssign<&BigInt> for BigInt {
//@ extract src/bigint/bits.rs :: impl BitAndAssign<&BigInt> for BigInt :: fn bitand_assign props=C04,C07 label=bigint_bitand_assign
    fn bitand_assign(&mut self, other: &BigInt)
//+{
        ensures final(self).wfi()
//+}
    {
        match (self.sign, other.sign) {
            (NoSign, _) => {}
            (_, NoSign) => self.set_zero(),
            (Plus, Plus) => {
                self.data &= &other.data;
                if self.data.is_zero() {
                    self.sign = NoSign;
                }
            }
            (Plus, Minus) => {
                bitand_pos_neg(self.digits_mut(), other.digits());
                self.normalize();
            }
            (Minus, Plus) => {
                bitand_neg_pos(self.digits_mut(), other.digits());
                self.sign = Plus;
                self.normalize();
            }
            (Minus, Minus) => {
                bitand_neg_neg(self.digits_mut(), other.digits());
                self.normalize();
            }
        }
    }
//@ end
}

impl BitOrAssign<&BigInt> for BigInt {
//@ extract src/bigint/bits.rs :: impl BitOrAssign<&BigInt> for BigInt :: fn bitor_assign props=C04,C07 label=bigint_bitor_assign
    fn bitor_assign(&mut self, other: &BigInt)
//+{
        ensures final(self).wfi()
//+}
    {
//+{
        proof { if self.data.dg().len() > 0 { lemma_wf_lower(self.data.dg()); } }
//+}
        match (self.sign, other.sign) {
            (_, NoSign) => {}
            (NoSign, _) => self.clone_from(other),
            (Plus, Plus) => /*+*/{ /*-*/self.data |= &other.data/*+*/; proof { lemma_or_nonzero(old(self).data.dg(), other.data.dg(), self.data.dg()); } }/*-*/,
            (Plus, Minus) => {
                bitor_pos_neg(self.digits_mut(), other.digits());
                self.sign = Minus;
                self.normalize();
            }
            (Minus, Plus) => {
                bitor_neg_pos(self.digits_mut(), other.digits());
                self.normalize();
            }
            (Minus, Minus) => {
                bitor_neg_neg(self.digits_mut(), other.digits());
                self.normalize();
            }
        }
    }
//@ end
}

impl BitXorAssign<&BigInt> for BigInt {
//@ extract src/bigint/bits.rs :: impl BitXorAssign<&BigInt> for BigInt :: fn bitxor_assign props=C04,C07 label=bigint_bitxor_assign
    fn bitxor_assign(&mut self, other: &BigInt)
//+{
        ensures final(self).wfi()
//+}
    {
        match (self.sign, other.sign) {
            (_, NoSign) => {}
            (NoSign, _) => self.clone_from(other),
            (Plus, Plus) => {
                self.data ^= &other.data;
                if self.data.is_zero() {
                    self.sign = NoSign;
                }
            }
            (Plus, Minus) => {
                bitxor_pos_neg(self.digits_mut(), other.digits());
                self.sign = Minus;
                self.normalize();
            }
            (Minus, Plus) => {
                bitxor_neg_pos(self.digits_mut(), other.digits());
                self.normalize();
            }
            (Minus, Minus) => {
                bitxor_neg_neg(self.digits_mut(), other.digits());
                self.sign = Plus;
                self.normalize();
            }
        }
    }
//@ end
}

} // mod u
} // verus!
fn main() {}
