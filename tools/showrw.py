#!/usr/bin/env python3
"""showrw.py <src> '<item spec>' '<k=v ...>'  -- print the mechanically rewritten text of one extracted item (authoring aid)."""
import sys
sys.path.insert(0, '/verif/tools')
import unit, rtok
src, spec, opts = sys.argv[1], sys.argv[2], sys.argv[3] if len(sys.argv) > 3 else "rules=R0"
sec = {"kind": "extract", "src": src, "spec": spec, "kv": unit.parse_kv(" " + opts), "annot": ""}
log = []
ss, span = unit.real_tokens(sys.argv[4] if len(sys.argv) > 4 else '/repo', sec, log)
print(rtok.join(ss))
for e in log:
    print("//", e["rule"], e["from"][:80], "->", e["to"][:80], file=sys.stderr)
