//@ unit x_rand : random generation (src/bigrand.rs, feature `rand`) as the monomorphic instance R = MRng (a model generator with a ghost log): bit-size, below-bound and range samplers stay within their bounds, are canonical, and gen_biguint is the stated function of the drawn words
#![feature(allocator_api)]
use vstd::prelude::*;
use vstd::std_specs::iter::IteratorSpec;
use vstd::std_specs::ops::*;
use core::ops::{Add, Sub, Neg};
use core::cmp::Ordering;
use vstd::arithmetic::power2::pow2;
verus! {
//@ include prelude/core.rs
//@ include prelude/std_specs.rs
//@ include prelude/panic.rs
//@ include prelude/val32.rs
//@ include prelude/highbits.rs
//@ extract src/bigint.rs :: enum Sign attrs=1
#[derive(/*+*/Structural, /*-*/PartialEq, PartialOrd, Eq, Ord, Copy, Clone, Debug, Hash)]
pub enum Sign {
    Minus,
    NoSign,
    Plus,
}
//@ end
//@ include prelude/randmodel.rs
pub mod u {
use super::*;
use Sign::*;

//@ extract src/biguint.rs :: struct BigUint
pub struct BigUint {
    data: Vec<BigDigit>,
}
//@ end
//@ include prelude/biguint_view.rs
pub open spec fn ord_of(a: nat, b: nat) -> Ordering {
    if a < b { Ordering::Less } else if a == b { Ordering::Equal } else { Ordering::Greater }
}
pub open spec fn ord_of_int(a: int, b: int) -> Ordering {
    if a < b { Ordering::Less } else if a == b { Ordering::Equal } else { Ordering::Greater }
}
//@ include prelude/biguint_ops_forms.rs
impl AddSpecImpl<u32> for &BigUint {
    open spec fn obeys_add_spec() -> bool { false }
    open spec fn add_req(self, rhs: u32) -> bool { self.wf() }
    open spec fn add_spec(self, rhs: u32) -> BigUint { arbitrary() }
}
impl Add<u32> for &BigUint {
    type Output = BigUint;
    //@ assume BigUint:Add<u32>for&BigUint : forward_all_scalar_binop_to_val_val_commutative! forwarder (engine F) to Add<u32> for BigUint (proved in u_scalar)
    #[verifier::external_body]
    fn add(self, other: u32) -> (r: BigUint)
        ensures r.wf(), r.v() == self.v() + other as nat
    { unimplemented!() }
}
//@ stub u_core/biguint_from_vec
impl BigUint {
//@ extract src/biguint.rs :: impl BigUint :: const ZERO rules=R9,R13 label=BigUint_ZERO
    exec const ZERO: Self /*+*/ensures Self::ZERO.data@.len() == 0 /*-*/{ BigUint { data: Vec::new() } }
//@ end
//@ stub u_core/is_zero
//@ stub u_core/clone
//@ stub u_cmp/cmp
//@ stub u_conv/bits
}

// local models of the num_integer / num_traits calls on u64 (external crates)
//@ assume num_integer::<u64 as Integer>::div_rem : external crate: truncated quotient and remainder
#[verifier::external_body]
fn __u64_div_rem(a: u64, b: u64) -> (r: (u64, u64))
    requires b != 0
    ensures r.0 == a / b, r.1 == a % b
{ unimplemented!() }
//@ assume num_integer::<u64 as Integer>::div_ceil : external crate: ceiling of the quotient
#[verifier::external_body]
fn __u64_div_ceil(a: u64, b: u64) -> (r: u64)
    requires b != 0
    ensures (r as nat) * (b as nat) >= a as nat, (r as nat) * (b as nat) < a as nat + b as nat
{ unimplemented!() }
pub trait ToPrimitive: Sized {
    spec fn as_int(self) -> int;
    fn to_usize(self) -> (r: Option<usize>)
        ensures r is Some <==> 0 <= self.as_int() <= usize::MAX, r is Some ==> r.unwrap() as int == self.as_int();
}
impl ToPrimitive for u64 {
    open spec fn as_int(self) -> int { self as int }
    //@ assume num_traits::<u64 as ToPrimitive>::to_usize : external crate; contract on the trait declaration above
    #[verifier::external_body]
    fn to_usize(self) -> (r: Option<usize>) { unimplemented!() }
}
//@ assume bool_as_u64 : rule R51: the cast `b as u64` of a bool (Rust reference: false -> 0, true -> 1)
#[verifier::external_body]
fn __bool_u64(b: bool) -> (r: u64)
    ensures r == (if b { 1u64 } else { 0u64 })
{ unimplemented!() }
//@ assume vec![0u32;n] : std: a vector of n zeros
#[verifier::external_body]
fn __zeros_u32(n: usize) -> (r: Vec<u32>)
    ensures r@.len() == n, forall|i: int| 0 <= i < n ==> r@[i] == 0
{ unimplemented!() }
//@ assume vec![0u64;n] : std: a vector of n zeros
#[verifier::external_body]
fn __zeros_u64(n: usize) -> (r: Vec<u64>)
    ensures r@.len() == n, forall|i: int| 0 <= i < n ==> r@[i] == 0
{ unimplemented!() }

pub open spec fn pw32(k: nat) -> nat
    decreases k
{
    if k == 0 { 1 } else { B32() * pw32((k - 1) as nat) }
}
pub proof fn lemma_pw32_pw(k: nat)
    ensures pw32(2 * k) == pw(k)
    decreases k
{
    if k > 0 {
        lemma_pw32_pw((k - 1) as nat);
        assert(pw32(2 * k) == B32() * pw32((2 * k - 1) as nat));
        assert(pw32((2 * k - 1) as nat) == B32() * pw32((2 * k - 2) as nat));
        assert(B32() * (B32() * pw32((2 * k - 2) as nat)) == B() * pw32((2 * k - 2) as nat)) by (nonlinear_arith) requires B32() * B32() == B();
    }
}
pub proof fn lemma_pw32_p2(k: nat)
    ensures pw32(k) == pow2(32 * k)
    decreases k
{
    vstd::arithmetic::power2::lemma2_to64();
    if k > 0 {
        lemma_pw32_p2((k - 1) as nat);
        vstd::arithmetic::power2::lemma_pow2_adds(32, 32 * ((k - 1) as nat));
        assert(32 + 32 * ((k - 1) as nat) == 32 * k);
    }
}
pub proof fn lemma_val32_append(s: Seq<u32>, t: Seq<u32>)
    ensures val32(s + t) == val32(s) + pw32(s.len()) * val32(t)
    decreases s.len()
{
    if s.len() == 0 {
        assert(s + t =~= t);
        assert(pw32(0) * val32(t) == val32(t)) by (nonlinear_arith) requires pw32(0) == 1;
    } else {
        let u = s + t;
        assert(u.subrange(1, u.len() as int) =~= s.subrange(1, s.len() as int) + t);
        lemma_val32_append(s.subrange(1, s.len() as int), t);
        let st = s.subrange(1, s.len() as int);
        assert(val32(u) == (u[0] as nat) + B32() * val32(u.subrange(1, u.len() as int)));
        assert(val32(s) == (s[0] as nat) + B32() * val32(st));
        assert(pw32(s.len()) == B32() * pw32(st.len()));
        assert(B32() * (val32(st) + pw32(st.len()) * val32(t)) == B32() * val32(st) + (B32() * pw32(st.len())) * val32(t)) by (nonlinear_arith);
    }
}
/// val32 of at most two words
pub proof fn lemma_val32_small(t: Seq<u32>)
    requires t.len() <= 2
    ensures val32(t) == w32(t, 0) + 0x1_0000_0000 * w32(t, 1)
{
    if t.len() >= 1 {
        let t1 = t.subrange(1, t.len() as int);
        assert(val32(t) == (t[0] as nat) + B32() * val32(t1));
        if t.len() == 2 {
            assert(val32(t1) == (t1[0] as nat) + B32() * val32(t1.subrange(1, 1)));
            assert(val32(t1.subrange(1, 1)) == 0);
            assert(t1[0] == t[1]);
        } else {
            assert(val32(t1) == 0);
        }
    }
}
pub open spec fn imin(a: int, b: int) -> int { if a <= b { a } else { b } }
/// 64-bit digits that hold the words two by two (little-endian) have the base-2^32 value of the words
pub proof fn lemma_pack(d: Seq<u64>, w: Seq<u32>, n: nat)
    requires n <= d.len(), w.len() <= 2 * d.len(),
        forall|i: int| 0 <= i < d.len() ==> #[trigger] d[i] as nat == w32(w, 2 * i) + 0x1_0000_0000 * w32(w, 2 * i + 1)
    ensures valp(d, n) == val32(w.subrange(0, imin(2 * (n as int), w.len() as int)))
    decreases n
{
    if n == 0 {
        assert(val32(w.subrange(0, 0)) == 0);
    } else {
        let m = (n - 1) as nat;
        lemma_pack(d, w, m);
        let mi = m as int;
        let a = imin(2 * mi, w.len() as int);
        let b = imin(2 * (n as int), w.len() as int);
        let pre = w.subrange(0, a);
        let ch = w.subrange(a, b);
        assert(w.subrange(0, b) =~= pre + ch);
        lemma_val32_append(pre, ch);
        lemma_val32_small(ch);
        assert(d[mi] as nat == w32(w, 2 * mi) + 0x1_0000_0000 * w32(w, 2 * mi + 1));
        if 2 * m <= w.len() {
            lemma_pw32_pw(m);
            assert(w32(ch, 0) == w32(w, 2 * mi));
            assert(w32(ch, 1) == w32(w, 2 * mi + 1));
            assert(pre.len() == 2 * m);
            assert(val32(ch) == d[mi] as nat);
            assert(pw(m) * (d[mi] as nat) == (d[mi] as nat) * pw(m)) by (nonlinear_arith);
            assert(valp(d, n) == valp(d, m) + (d[mi] as nat) * pw(m));
        } else {
            assert(ch.len() == 0);
            assert(val32(ch) == 0);
            assert(pw32(pre.len()) * 0 == 0) by (nonlinear_arith);
            assert(d[mi] as nat == 0);
            assert(0 * pw(m) == 0) by (nonlinear_arith);
            assert(valp(d, n) == valp(d, m) + (d[mi] as nat) * pw(m));
        }
    }
}
/// value bound of words whose top word was shifted down to `rem` bits
pub proof fn lemma_val32_bound(s: Seq<u32>, k: nat)
    requires k <= s.len()
    ensures val32p(s, k) < pw32(k)
    decreases k
{
    if k > 0 {
        lemma_val32_bound(s.subrange(1, s.len() as int), (k - 1) as nat);
        let t = val32p(s.subrange(1, s.len() as int), (k - 1) as nat);
        let p = pw32((k - 1) as nat);
        assert((s[0] as nat) + B32() * t < B32() * p) by (nonlinear_arith) requires (s[0] as nat) < B32(), t + 1 <= p;
    }
}
/// the words the generator drew, with the top word shifted down to `rem` bits when rem > 0
pub open spec fn shift_top(raw: Seq<u32>, rem: u64) -> Seq<u32> {
    if rem > 0 && raw.len() > 0 { raw.update(raw.len() - 1, raw[raw.len() - 1] >> ((32 - rem) as u32)) } else { raw }
}
pub proof fn lemma_shift_bound(raw: Seq<u32>, rem: u64)
    requires rem < 32, rem > 0 ==> raw.len() > 0
    ensures val32(shift_top(raw, rem)) < pow2((if rem > 0 { 32 * (raw.len() - 1) + rem as int } else { 32 * raw.len() as int }) as nat)
{
    let s = shift_top(raw, rem);
    if rem == 0 {
        lemma_val32_bound(s, s.len());
        lemma_pw32_p2(s.len());
    } else {
        let n = (raw.len() - 1) as nat;
        let pre = s.subrange(0, n as int);
        let top = s.subrange(n as int, s.len() as int);
        assert(s =~= pre + top);
        lemma_val32_append(pre, top);
        lemma_val32_small(top);
        lemma_val32_bound(pre, n);
        lemma_pw32_p2(n);
        let x = raw[n as int];
        let sh = (32 - rem) as u32;
        let t = x >> sh;
        assert(t == top[0]);
        assert((t as u64) < (1u64 << rem)) by (bit_vector) requires t == x >> sh, sh == (32 - rem) as u32, 0 < rem < 32;
        vstd::arithmetic::power2::lemma2_to64();
        vstd::arithmetic::power2::lemma_pow2_strictly_increases(rem as nat, 64);
        vstd::bits::lemma_u64_shl_is_mul(1u64, rem);
        vstd::arithmetic::power2::lemma_pow2_adds(32 * n, rem as nat);
        let p = pow2(32 * n); let q = pow2(rem as nat);
        assert(val32(pre) + p * (t as nat) < p * q) by (nonlinear_arith) requires val32(pre) < p, (t as nat) + 1 <= q;
    }
}

//@ extract src/bigrand.rs :: fn gen_bits rules=R0,R51 tysub=<R:Rng+?Sized>=>;rng:&mut~R=>rng:&mut~MRng props=C18
fn gen_bits(rng: &mut MRng, data: &mut [u32], rem: u64)
//+{
    requires rem < 32, rem > 0 ==> old(data)@.len() > 0
    ensures final(data)@.len() == old(data)@.len(),
        exists|raw: Seq<u32>| #[trigger] drew(*old(rng), *final(rng), raw) && raw.len() == old(data)@.len() && final(data)@ == shift_top(raw, rem)
//+}
{
    // `fill` is faster than many `gen::<u32>` calls
    rng.fill(data);
//+{
    let ghost raw = data@;
    proof { assert(drew(*old(rng), *rng, raw)); }
//+}
    if rem > 0 {
        let last = data.len() - 1;
        data[last] >>= 32 - rem;
//+{
        proof { assert(data@ =~= shift_top(raw, rem)); }
//+}
    }
}
//@ end

//@ extract src/bigint.rs :: struct BigInt
pub struct BigInt {
    sign: Sign,
    data: BigUint,
}
//@ end
//@ include prelude/bigint_view.rs
//@ include prelude/bigint_core_stubs.rs
impl vstd::std_specs::convert::FromSpecImpl<BigUint> for BigInt {
    open spec fn obeys_from_spec() -> bool { false }
    open spec fn from_spec(v: BigUint) -> BigInt { arbitrary() }
}
impl From<BigUint> for BigInt {
//@ stub i_div/from_biguint_trait
}
impl AddSpecImpl<BigInt> for &BigInt {
    open spec fn obeys_add_spec() -> bool { false }
    open spec fn add_req(self, rhs: BigInt) -> bool { self.wfi() && rhs.wfi() }
    open spec fn add_spec(self, rhs: BigInt) -> BigInt { arbitrary() }
}
impl Add<BigInt> for &BigInt {
    type Output = BigInt;
//@ stub i_addsub/add_rv
}
impl SubSpecImpl<&BigInt> for &BigInt {
    open spec fn obeys_sub_spec() -> bool { false }
    open spec fn sub_req(self, rhs: &BigInt) -> bool { self.wfi() && rhs.wfi() }
    open spec fn sub_spec(self, rhs: &BigInt) -> BigInt { arbitrary() }
}
impl Sub<&BigInt> for &BigInt {
    type Output = BigInt;
//@ stub i_addsub/sub_rr
}
impl AddSpecImpl<u32> for &BigInt {
    open spec fn obeys_add_spec() -> bool { false }
    open spec fn add_req(self, rhs: u32) -> bool { self.wfi() }
    open spec fn add_spec(self, rhs: u32) -> BigInt { arbitrary() }
}
impl Add<u32> for &BigInt {
    type Output = BigInt;
    //@ assume BigInt:Add<u32>for&BigInt : forward_all_scalar_binop_to_val_val_commutative! forwarder (engine F) to Add<u32> for BigInt (proved in i_scalar)
    #[verifier::external_body]
    fn add(self, other: u32) -> (r: BigInt)
        ensures r.wfi(), r.iv() == self.iv() + other as int
    { unimplemented!() }
}
impl BigInt {
//@ stub i_core/magnitude
//@ stub i_core/into_parts
//@ stub i_cmp/bigint_cmp
}

impl MRng {
    // contract-only re-homing of `impl<R: Rng + ?Sized> RandBigInt for R` at R = MRng
//@ extract src/bigrand.rs :: impl<R: Rng + ?Sized> RandBigInt for R :: fn gen_biguint rules=R0,R11f,R51 props=C18,C15,C14
    fn gen_biguint(&mut self, bit_size: u64) -> /*+*/(r: /*-*/BigUint/*+*/)/*-*/
//+{
        ensures r.wf(), r.v() < pow2(bit_size as nat),
            exists|raw: Seq<u32>| #[trigger] drew(*old(self), *final(self), raw) && raw.len() == (bit_size as nat + 31) / 32 && r.v() == val32(shift_top(raw, bit_size % 32))
//+}
    {

        let (digits, rem) = __u64_div_rem(bit_size, 32);
        let len = (digits + __bool_u64(rem > 0))
            .to_usize()
            .expect__();
        let native_digits = __u64_div_ceil(bit_size, 64);
        let native_len = native_digits.to_usize().expect__();
        let mut data = __zeros_u64(native_len);
        { let mut words__ = __u32_view_take(&data, len); gen_bits(self, words__.as_mut_slice(), rem); __u32_view_store(&mut data, &words__);
//+{
            proof {
                lemma_pack(data@, words__@, data@.len());
                assert(words__@.subrange(0, words__@.len() as int) =~= words__@);
                let raw = choose|raw: Seq<u32>| #[trigger] drew(*old(self), *self, raw) && raw.len() == len && words__@ == shift_top(raw, rem);
                lemma_shift_bound(raw, rem);
            }
//+}
        }
        biguint_from_vec(data)
    }
//@ end

//@ extract src/bigrand.rs :: impl<R: Rng + ?Sized> RandBigInt for R :: fn gen_bigint rules=R0 props=C18
    /*+*/#[verifier::exec_allows_no_decreases_clause]
    /*-*/fn gen_bigint(&mut self, bit_size: u64) -> /*+*/(r: /*-*/BigInt/*+*/)/*-*/
//+{
        ensures r.wfi(), -(pow2(bit_size as nat) as int) < r.iv() < pow2(bit_size as nat) as int, later(*old(self), *final(self))
//+}
    {
//+{
        proof { lemma_later_refl(*self); }
//+}
        loop
//+{
            invariant later(*old(self), *self)
//+}
        {
//+{
            let ghost s0 = *self;
//+}
            // Generate a random BigUint...
            let biguint = self.gen_biguint(bit_size);
//+{
            let ghost s1 = *self;
            proof { lemma_drew_later(s0, s1); lemma_later_trans(*old(self), s0, s1); }
//+}
            // ...and then randomly assign it a Sign...
            let sign = if biguint.is_zero() {
                // ...except that if the BigUint is zero, we need to try
                // again with probability 0.5. This is because otherwise,
                // the probability of generating a zero BigInt would be
                // double that of any other number.
                if self.gen() {
//+{
                    proof { lemma_flip_later(s1, *self); lemma_later_trans(*old(self), s1, *self); }
//+}
                    continue;
                } else {
                    NoSign
                }
            } else if self.gen() {
                Plus
            } else {
                Minus
            };
//+{
            proof {
                lemma_flip_later(s1, *self); lemma_later_trans(*old(self), s1, *self);
                lemma_sgn_mul(sign, biguint.v());
            }
//+}
            return BigInt::from_biguint(sign, biguint);
        }
    }
//@ end

//@ extract src/bigrand.rs :: impl<R: Rng + ?Sized> RandBigInt for R :: fn gen_biguint_below rules=R0,R11a,R51 props=C18,C14
    /*+*/#[verifier::exec_allows_no_decreases_clause]
    /*-*/fn gen_biguint_below(&mut self, bound: &BigUint) -> /*+*/(r: /*-*/BigUint/*+*/)/*-*/
//+{
        requires bound.wf(), !mp() ==> bound.v() != 0
        ensures mp() ==> bound.v() != 0, r.wf(), r.v() < bound.v(), later(*old(self), *final(self))
//+}
    {
        __assert(!bound.is_zero());
        let bits = bound.bits();
//+{
        proof { lemma_later_refl(*self); }
//+}
        loop
//+{
            invariant later(*old(self), *self), bound.wf(), bound.v() != 0
//+}
        {
//+{
            let ghost s0 = *self;
//+}
            let n = self.gen_biguint(bits);
//+{
            proof { lemma_drew_later(s0, *self); lemma_later_trans(*old(self), s0, *self); }
//+}
            if (n.cmp(bound) == core::cmp::Ordering::Less) {
                return n;
            }
        }
    }
//@ end

//@ extract src/bigrand.rs :: impl<R: Rng + ?Sized> RandBigInt for R :: fn gen_biguint_range rules=R0,R51,R52 props=C18,C14
    fn gen_biguint_range(&mut self, lbound: &BigUint, ubound: &BigUint) -> /*+*/(r: /*-*/BigUint/*+*/)/*-*/
//+{
        requires lbound.wf(), ubound.wf(), !mp() ==> lbound.v() < ubound.v()
        ensures mp() ==> lbound.v() < ubound.v(), r.wf(), lbound.v() <= r.v() < ubound.v(), later(*old(self), *final(self))
//+}
    {
        __assert(lbound.cmp(ubound) == core::cmp::Ordering::Less);
        if lbound.is_zero() {
            self.gen_biguint_below(ubound)
        } else {
            Add::add(lbound, self.gen_biguint_below(&Sub::sub(ubound, lbound)))
        }
    }
//@ end

//@ extract src/bigrand.rs :: impl<R: Rng + ?Sized> RandBigInt for R :: fn gen_bigint_range rules=R0,R51,R52 props=C18,C14
    fn gen_bigint_range(&mut self, lbound: &BigInt, ubound: &BigInt) -> /*+*/(r: /*-*/BigInt/*+*/)/*-*/
//+{
        requires lbound.wfi(), ubound.wfi(), !mp() ==> lbound.iv() < ubound.iv()
        ensures mp() ==> lbound.iv() < ubound.iv(), r.wfi(), lbound.iv() <= r.iv() < ubound.iv(), later(*old(self), *final(self))
//+}
    {
        __assert(lbound.cmp(ubound) == core::cmp::Ordering::Less);
        if lbound.is_zero() {
            BigInt::from(self.gen_biguint_below(ubound.magnitude()))
        } else if ubound.is_zero() {
            Add::add(lbound, BigInt::from(self.gen_biguint_below(lbound.magnitude())))
        } else {
            let delta = Sub::sub(ubound, lbound);
            Add::add(lbound, BigInt::from(self.gen_biguint_below(delta.magnitude())))
        }
    }
//@ end
}


//@ extract src/bigrand.rs :: struct UniformBigUint
pub struct UniformBigUint {
    base: BigUint,
    len: BigUint,
}
//@ end
impl UniformBigUint {
    /// the sampler draws from [lo, lo + span)
    pub closed spec fn lo(&self) -> int { self.base.v() as int }
    pub closed spec fn span(&self) -> nat { self.len.v() }
    pub closed spec fn inv(&self) -> bool { self.base.wf() && self.len.wf() && self.len.v() > 0 }

    // contract-only re-homing of `impl UniformSampler for UniformBigUint` (rand: external trait) at B1 = B2 = &BigUint, R = MRng
//@ extract src/bigrand.rs :: impl UniformSampler for UniformBigUint :: fn new rules=R0,R51,R52 tysub=new<B1,B2>(low_b:B1,high_b:B2)=>new(low_b:&BigUint,high_b:&BigUint);where~B1:SampleBorrow<Self::X>+Sized,B2:SampleBorrow<Self::X>+Sized,=> props=C18,C14 label=UniformBigUint_new
    fn new(low_b: &BigUint, high_b: &BigUint) -> /*+*/(r: /*-*/Self/*+*/)/*-*/
//+{
        requires low_b.wf(), high_b.wf(), !mp() ==> low_b.v() < high_b.v()
        ensures mp() ==> low_b.v() < high_b.v(), r.inv(), r.lo() == low_b.v() as int, r.span() as int == high_b.v() - low_b.v()
//+}
    {
        let low = low_b;
        let high = high_b;
        __assert(low.cmp(high) == core::cmp::Ordering::Less);
        UniformBigUint {
            len: Sub::sub(high, low),
            base: low.clone(),
        }
    }
//@ end

//@ extract src/bigrand.rs :: impl UniformSampler for UniformBigUint :: fn new_inclusive rules=R0,R51,R52 tysub=new_inclusive<B1,B2>(low_b:B1,high_b:B2)=>new_inclusive(low_b:&BigUint,high_b:&BigUint);where~B1:SampleBorrow<Self::X>+Sized,B2:SampleBorrow<Self::X>+Sized,=> props=C18,C14 label=UniformBigUint_new_inclusive
    fn new_inclusive(low_b: &BigUint, high_b: &BigUint) -> /*+*/(r: /*-*/Self/*+*/)/*-*/
//+{
        requires low_b.wf(), high_b.wf(), !mp() ==> low_b.v() <= high_b.v()
        ensures mp() ==> low_b.v() <= high_b.v(), r.inv(), r.lo() == low_b.v() as int, r.span() as int == high_b.v() - low_b.v() + 1
//+}
    {
        let low = low_b;
        let high = high_b;
        __assert(low.cmp(high) != core::cmp::Ordering::Greater);
        Self::new(low, &Add::add(high, 1u32))
    }
//@ end

//@ extract src/bigrand.rs :: impl UniformSampler for UniformBigUint :: fn sample rules=R0,R52 tysub=sample<R:Rng+?Sized>(&self,rng:&mut~R)=>sample(&self,rng:&mut~MRng);Self::X=>BigUint props=C18 label=UniformBigUint_sample
    fn sample(&self, rng: &mut MRng) -> /*+*/(r: /*-*/BigUint/*+*/)/*-*/
//+{
        requires self.inv()
        ensures r.wf(), self.lo() <= r.v() < self.lo() + self.span(), later(*old(rng), *final(rng))
//+}
    {
        Add::add(&self.base, rng.gen_biguint_below(&self.len))
    }
//@ end

//@ extract src/bigrand.rs :: impl UniformSampler for UniformBigUint :: fn sample_single rules=R0,R52 tysub=sample_single<R:Rng+?Sized,B1,B2>(low:B1,high:B2,rng:&mut~R)=>sample_single(low:&BigUint,high:&BigUint,rng:&mut~MRng);where~B1:SampleBorrow<Self::X>+Sized,B2:SampleBorrow<Self::X>+Sized,=>;Self::X=>BigUint props=C18,C14 label=UniformBigUint_sample_single
    fn sample_single(low: &BigUint, high: &BigUint, rng: &mut MRng) -> /*+*/(r: /*-*/BigUint/*+*/)/*-*/
//+{
        requires low.wf(), high.wf(), !mp() ==> low.v() < high.v()
        ensures mp() ==> low.v() < high.v(), r.wf(), low.v() <= r.v() < high.v(), later(*old(rng), *final(rng))
//+}
    {
        rng.gen_biguint_range(low, high)
    }
//@ end
}

//@ extract src/bigrand.rs :: struct UniformBigInt
pub struct UniformBigInt {
    base: BigInt,
    len: BigUint,
}
//@ end
impl UniformBigInt {
    /// the sampler draws from [lo, lo + span)
    pub closed spec fn lo(&self) -> int { self.base.iv() as int }
    pub closed spec fn span(&self) -> nat { self.len.v() }
    pub closed spec fn inv(&self) -> bool { self.base.wfi() && self.len.wf() && self.len.v() > 0 }

    // contract-only re-homing of `impl UniformSampler for UniformBigInt` (rand: external trait) at B1 = B2 = &BigInt, R = MRng
//@ extract src/bigrand.rs :: impl UniformSampler for UniformBigInt :: fn new rules=R0,R51,R52 tysub=new<B1,B2>(low_b:B1,high_b:B2)=>new(low_b:&BigInt,high_b:&BigInt);where~B1:SampleBorrow<Self::X>+Sized,B2:SampleBorrow<Self::X>+Sized,=> props=C18,C14 label=UniformBigInt_new
    fn new(low_b: &BigInt, high_b: &BigInt) -> /*+*/(r: /*-*/Self/*+*/)/*-*/
//+{
        requires low_b.wfi(), high_b.wfi(), !mp() ==> low_b.iv() < high_b.iv()
        ensures mp() ==> low_b.iv() < high_b.iv(), r.inv(), r.lo() == low_b.iv() as int, r.span() as int == high_b.iv() - low_b.iv()
//+}
    {
        let low = low_b;
        let high = high_b;
        __assert(low.cmp(high) == core::cmp::Ordering::Less);
        UniformBigInt {
            len: Sub::sub(high, low).into_parts().1,
            base: low.clone(),
        }
    }
//@ end

//@ extract src/bigrand.rs :: impl UniformSampler for UniformBigInt :: fn new_inclusive rules=R0,R51,R52 tysub=new_inclusive<B1,B2>(low_b:B1,high_b:B2)=>new_inclusive(low_b:&BigInt,high_b:&BigInt);where~B1:SampleBorrow<Self::X>+Sized,B2:SampleBorrow<Self::X>+Sized,=> props=C18,C14 label=UniformBigInt_new_inclusive
    fn new_inclusive(low_b: &BigInt, high_b: &BigInt) -> /*+*/(r: /*-*/Self/*+*/)/*-*/
//+{
        requires low_b.wfi(), high_b.wfi(), !mp() ==> low_b.iv() <= high_b.iv()
        ensures mp() ==> low_b.iv() <= high_b.iv(), r.inv(), r.lo() == low_b.iv() as int, r.span() as int == high_b.iv() - low_b.iv() + 1
//+}
    {
        let low = low_b;
        let high = high_b;
        __assert(low.cmp(high) != core::cmp::Ordering::Greater);
        Self::new(low, &Add::add(high, 1u32))
    }
//@ end

//@ extract src/bigrand.rs :: impl UniformSampler for UniformBigInt :: fn sample rules=R0,R52 tysub=sample<R:Rng+?Sized>(&self,rng:&mut~R)=>sample(&self,rng:&mut~MRng);Self::X=>BigInt props=C18 label=UniformBigInt_sample
    fn sample(&self, rng: &mut MRng) -> /*+*/(r: /*-*/BigInt/*+*/)/*-*/
//+{
        requires self.inv()
        ensures r.wfi(), self.lo() <= r.iv() < self.lo() + self.span(), later(*old(rng), *final(rng))
//+}
    {
        Add::add(&self.base, BigInt::from(rng.gen_biguint_below(&self.len)))
    }
//@ end

//@ extract src/bigrand.rs :: impl UniformSampler for UniformBigInt :: fn sample_single rules=R0,R52 tysub=sample_single<R:Rng+?Sized,B1,B2>(low:B1,high:B2,rng:&mut~R)=>sample_single(low:&BigInt,high:&BigInt,rng:&mut~MRng);where~B1:SampleBorrow<Self::X>+Sized,B2:SampleBorrow<Self::X>+Sized,=>;Self::X=>BigInt props=C18,C14 label=UniformBigInt_sample_single
    fn sample_single(low: &BigInt, high: &BigInt, rng: &mut MRng) -> /*+*/(r: /*-*/BigInt/*+*/)/*-*/
//+{
        requires low.wfi(), high.wfi(), !mp() ==> low.iv() < high.iv()
        ensures mp() ==> low.iv() < high.iv(), r.wfi(), low.iv() <= r.iv() < high.iv(), later(*old(rng), *final(rng))
//+}
    {
        rng.gen_bigint_range(low, high)
    }
//@ end
}

//@ extract src/bigrand.rs :: struct RandomBits
pub struct RandomBits {
    bits: u64,
}
//@ end
impl RandomBits {
    pub closed spec fn nbits(&self) -> u64 { self.bits }
//@ extract src/bigrand.rs :: impl RandomBits :: fn new props=C18 label=RandomBits_new
    pub fn new(bits: u64) -> /*+*/(r: /*-*/RandomBits/*+*/)/*-*/
//+{
        ensures r.nbits() == bits
//+}
    {
        RandomBits { bits }
    }
//@ end
    // contract-only re-homing of `impl Distribution<BigUint> / Distribution<BigInt> for RandomBits` at R = MRng: the same draws as gen_biguint / gen_bigint
//@ extract src/bigrand.rs :: impl Distribution<BigUint> for RandomBits :: fn sample tysub=sample<R:Rng+?Sized>(&self,rng:&mut~R)=>sample_u(&self,rng:&mut~MRng) props=C18 label=RandomBits_sample_u
    fn sample_u(&self, rng: &mut MRng) -> /*+*/(r: /*-*/BigUint/*+*/)/*-*/
//+{
        ensures r.wf(), r.v() < pow2(self.nbits() as nat),
            exists|raw: Seq<u32>| #[trigger] drew(*old(rng), *final(rng), raw) && raw.len() == (self.nbits() as nat + 31) / 32 && r.v() == val32(shift_top(raw, self.nbits() % 32))
//+}
    {
        rng.gen_biguint(self.bits)
    }
//@ end
//@ extract src/bigrand.rs :: impl Distribution<BigInt> for RandomBits :: fn sample tysub=sample<R:Rng+?Sized>(&self,rng:&mut~R)=>sample_i(&self,rng:&mut~MRng) props=C18 label=RandomBits_sample_i
    fn sample_i(&self, rng: &mut MRng) -> /*+*/(r: /*-*/BigInt/*+*/)/*-*/
//+{
        ensures r.wfi(), -(pow2(self.nbits() as nat) as int) < r.iv() < pow2(self.nbits() as nat) as int, later(*old(rng), *final(rng))
//+}
    {
        rng.gen_bigint(self.bits)
    }
//@ end
}

pub proof fn lemma_later_refl(a: MRng)
    ensures later(a, a)
{
    assert(a.words().subrange(0, a.words().len() as int) =~= a.words());
    assert(a.flips().subrange(0, a.flips().len() as int) =~= a.flips());
}
pub proof fn lemma_later_trans(a: MRng, b: MRng, c: MRng)
    requires later(a, b), later(b, c)
    ensures later(a, c)
{
    assert(c.words().subrange(0, a.words().len() as int) =~= c.words().subrange(0, b.words().len() as int).subrange(0, a.words().len() as int));
    assert(c.flips().subrange(0, a.flips().len() as int) =~= c.flips().subrange(0, b.flips().len() as int).subrange(0, a.flips().len() as int));
}
pub proof fn lemma_drew_later(a: MRng, b: MRng)
    requires exists|w: Seq<u32>| #[trigger] drew(a, b, w)
    ensures later(a, b)
{
    let w = choose|w: Seq<u32>| #[trigger] drew(a, b, w);
    assert((a.words() + w).subrange(0, a.words().len() as int) =~= a.words());
    assert(b.flips().subrange(0, a.flips().len() as int) =~= a.flips());
}
pub proof fn lemma_flip_later(a: MRng, b: MRng)
    requires b.words() == a.words(), exists|f: bool| b.flips() == a.flips().push(f)
    ensures later(a, b)
{
    let f = choose|f: bool| b.flips() == a.flips().push(f);
    assert(a.flips().push(f).subrange(0, a.flips().len() as int) =~= a.flips());
    assert(b.words().subrange(0, a.words().len() as int) =~= a.words());
}

} // mod u
} // verus!
fn main() {}
