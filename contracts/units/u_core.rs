//@ unit u_core : BigUint representation: normalisation and constructors (src/biguint.rs)
#![feature(allocator_api)]
use vstd::prelude::*;
use vstd::std_specs::iter::IteratorSpec;
verus! {
//@ include prelude/core.rs
//@ include prelude/std_specs.rs
pub mod u {
use super::*;

//@ extract src/biguint.rs :: struct BigUint
pub struct BigUint {
    data: Vec<BigDigit>,
}
//@ end

//@ include prelude/biguint_view.rs

impl BigUint {
//@ extract src/biguint.rs :: impl BigUint :: fn normalize rules=R0,R2,R12a props=C04,C01
    fn normalize(&mut self)
//+{
        ensures
            final(self).wf(),
            final(self).v() == old(self).v(),
            final(self).data@.len() <= old(self).data@.len(),
            final(self).data@ =~= old(self).data@.subrange(0, final(self).data@.len() as int),
//+}
    {
        if let Some(p__) = self.data.last() { if *p__ == 0 {
            let len = __rpos_nz_len(&self.data);
//+{
            proof { lemma_val_strip(self.data@, len as nat); }
//+}
            self.data.truncate(len);
        } }
        if self.data.len() < self.data.capacity() / 4 {
            self.data.shrink_to_fit();
        }
    }
//@ end

//@ extract src/biguint.rs :: impl BigUint :: fn normalized rules=R0,R5 props=C04,C01
    fn normalized(self) -> /*+*/(r: /*-*/BigUint/*+*/)/*-*/
//+{
        ensures r.wf(), r.v() == self.v(),
            r.data@ =~= self.data@.subrange(0, r.data@.len() as int), r.data@.len() <= self.data@.len(),
//+}
    {
        let mut self__ = self;
        self__.normalize();
        self__
    }
//@ end
}

//@ extract src/biguint.rs :: fn biguint_from_vec props=C04,C09
pub(crate) fn biguint_from_vec(digits: Vec<BigDigit>) -> /*+*/(r: /*-*/BigUint/*+*/)/*-*/
//+{
    ensures r.wf(), r.v() == val(digits@)
//+}
{
    BigUint { data: digits }.normalized()
}
//@ end

} // mod u
} // verus!
fn main() {}
