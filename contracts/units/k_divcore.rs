//@ unit k_divcore : Knuth algorithm D (long division core) and its multiply-subtract kernel (src/biguint/division.rs)
#![feature(allocator_api)]
use vstd::prelude::*;
use vstd::std_specs::iter::IteratorSpec;
use core::cmp::Ordering;
use core::cmp::Ordering::{Equal, Greater, Less};
verus! {
//@ include prelude/core.rs
//@ include prelude/std_specs.rs
//@ include prelude/panic.rs
pub mod u {
use super::*;

pub mod big_digit {
    use vstd::prelude::*;
    use super::*;
    pub type BigDigit = u64;
    pub type DoubleBigDigit = u128;
//@ extract src/lib.rs :: mod big_digit :: const MAX
    pub(crate) const MAX: BigDigit = BigDigit::MAX;
//@ end
//@ stub k_mul/from_doublebigdigit
//@ stub k_mul/to_doublebigdigit
}

//@ extract src/biguint.rs :: struct BigUint
pub struct BigUint {
    data: Vec<BigDigit>,
}
//@ end
//@ include prelude/biguint_view.rs
impl BigUint {
//@ stub u_core/normalize
//@ stub u_core/normalized
}
//@ stub k_add/__add2

//@ assume div_wide : x86 `div` instruction (asm!): contract from the instruction definition; the #DE precondition hi < divisor is proved at every call site under contract
#[verifier::external_body]
fn div_wide(hi: BigDigit, lo: BigDigit, divisor: BigDigit) -> (r: (BigDigit, BigDigit))
    requires hi < divisor
    ensures (hi as nat) * B() + (lo as nat) == (r.0 as nat) * (divisor as nat) + (r.1 as nat), r.1 < divisor
{ unimplemented!() }

pub proof fn lemma_submul_step(fa: Seq<u64>, oa: Seq<u64>, bs: Seq<u64>, c: nat, k: nat, bw0: nat, bw1: nat)
    requires
        k < fa.len(), fa.len() == oa.len(), oa.len() == bs.len(),
        valp(fa, k) + c * valp(bs, k) == valp(oa, k) + bw0 * pw(k),
        (fa[k as int] as nat) + (bs[k as int] as nat) * c + bw0 == (oa[k as int] as nat) + bw1 * B(),
    ensures
        valp(fa, k + 1) + c * valp(bs, k + 1) == valp(oa, k + 1) + bw1 * pw(k + 1),
{
    let p = pw(k);
    let x = fa[k as int] as nat; let y = bs[k as int] as nat; let o = oa[k as int] as nat;
    assert(valp(fa, k + 1) == valp(fa, k) + x * p);
    assert(valp(bs, k + 1) == valp(bs, k) + y * p);
    assert(valp(oa, k + 1) == valp(oa, k) + o * p);
    assert(pw(k + 1) == B() * p);
    assert(c * (valp(bs, k) + y * p) == c * valp(bs, k) + (y * c) * p) by (nonlinear_arith);
    assert((x + y * c + bw0) * p == x * p + (y * c) * p + bw0 * p) by (nonlinear_arith);
    assert((o + bw1 * B()) * p == o * p + bw1 * (B() * p)) by (nonlinear_arith);
}


// ------------------------------------------------------------------ Knuth D: arithmetic of the quotient-digit estimate
// Window w = [a0 a1 a2 | wl], divisor v = [b0 b1 | vl] in units of E = B^(n-2):
//   w == t3 * E + wl, v == v2 * E + vl, 0 <= wl, vl < E, b0 >= B/2 (normalised), w < v * B (invariant of the long division)
pub open spec fn t3(a0: nat, a1: nat, a2: nat) -> nat { (a0 * B() + a1) * B() + a2 }
pub open spec fn v2(b0: nat, b1: nat) -> nat { b0 * B() + b1 }
pub open spec fn HALFB() -> nat { 0x8000_0000_0000_0000nat }

pub open spec fn kn_ctx(e: nat, w: nat, v: nat, wl: nat, vl: nat, a0: nat, a1: nat, a2: nat, b0: nat, b1: nat) -> bool {
    e > 0 && w == t3(a0, a1, a2) * e + wl && wl < e && v == v2(b0, b1) * e + vl && vl < e
    && a0 < B() && a1 < B() && a2 < B() && b0 < B() && b1 < B() && b0 >= HALFB() && w < v * B()
}

/// the extra top digit of the running dividend never exceeds the top divisor digit
pub proof fn lemma_kn_a0_le_b0(e: nat, w: nat, v: nat, wl: nat, vl: nat, a0: nat, a1: nat, a2: nat, b0: nat, b1: nat)
    requires kn_ctx(e, w, v, wl, vl, a0, a1, a2, b0, b1)
    ensures a0 <= b0
{
    if a0 >= b0 + 1 {
        let bb = B();
        // w >= a0 * B * B * e >= (b0 + 1) * B * B * e
        assert(t3(a0, a1, a2) >= (b0 + 1) * bb * bb) by (nonlinear_arith)
            requires a0 >= b0 + 1, t3(a0, a1, a2) == (a0 * bb + a1) * bb + a2;
        assert(t3(a0, a1, a2) * e >= ((b0 + 1) * bb * bb) * e) by (nonlinear_arith)
            requires t3(a0, a1, a2) >= (b0 + 1) * bb * bb;
        // v * B < (v2 + 1) * e * B <= (b0 + 1) * B * e * B
        assert(v2(b0, b1) + 1 <= (b0 + 1) * bb) by (nonlinear_arith) requires v2(b0, b1) == b0 * bb + b1, b1 < bb;
        assert(v <= (v2(b0, b1) + 1) * e) by (nonlinear_arith) requires v == v2(b0, b1) * e + vl, vl < e;
        assert(v * bb <= ((b0 + 1) * bb * bb) * e) by (nonlinear_arith)
            requires v <= (v2(b0, b1) + 1) * e, v2(b0, b1) + 1 <= (b0 + 1) * bb;
        assert(false);
    }
}

/// v >= B * e (a normalised divisor is at least B^(n-1))
pub proof fn lemma_kn_v_lower(e: nat, v: nat, vl: nat, b0: nat, b1: nat)
    requires v == v2(b0, b1) * e + vl, b0 >= HALFB(), e > 0
    ensures v >= B() * e
{
    let bb = B();
    assert(v2(b0, b1) * e >= bb * e) by (nonlinear_arith) requires v2(b0, b1) == b0 * bb + b1, b0 >= 1, e > 0;
}

/// first estimate [a0 a1] / b0 (a0 < b0): never too small
pub proof fn lemma_kn_est_init(e: nat, w: nat, v: nat, wl: nat, vl: nat, a0: nat, a1: nat, a2: nat, b0: nat, b1: nat, q: nat, r: nat)
    requires kn_ctx(e, w, v, wl, vl, a0, a1, a2, b0, b1), q * b0 + r == a0 * B() + a1, r < b0
    ensures (q + 1) * v > w
{
    let bb = B();
    // (q+1) * b0 >= a0*B + a1 + 1
    assert((q + 1) * b0 >= a0 * bb + a1 + 1) by (nonlinear_arith) requires q * b0 + r == a0 * bb + a1, r < b0;
    // (q+1) * v >= (q+1) * b0 * B * e >= (a0*B + a1 + 1) * B * e > w
    assert(v >= (b0 * bb) * e) by (nonlinear_arith) requires v == v2(b0, b1) * e + vl, v2(b0, b1) == b0 * bb + b1;
    assert((q + 1) * v >= ((q + 1) * b0) * (bb * e)) by (nonlinear_arith) requires v >= (b0 * bb) * e;
    assert(((q + 1) * b0) * (bb * e) >= (a0 * bb + a1 + 1) * (bb * e)) by (nonlinear_arith) requires (q + 1) * b0 >= a0 * bb + a1 + 1;
    assert(w < (a0 * bb + a1 + 1) * (bb * e)) by (nonlinear_arith)
        requires w == t3(a0, a1, a2) * e + wl, wl < e, t3(a0, a1, a2) == (a0 * bb + a1) * bb + a2, a2 < bb;
}

/// the refinement test `q * b1 > r * B + a2` (with r = [a0 a1] - q * b0) says q * [b0 b1] > [a0 a1 a2]: then q is too large
pub proof fn lemma_kn_est_dec(e: nat, w: nat, v: nat, wl: nat, vl: nat, a0: nat, a1: nat, a2: nat, b0: nat, b1: nat, q: nat, r: nat)
    requires kn_ctx(e, w, v, wl, vl, a0, a1, a2, b0, b1), r + q * b0 == a0 * B() + a1, q * b1 > r * B() + a2
    ensures q * v > w, q >= 1
{
    let bb = B();
    assert(q * v2(b0, b1) >= t3(a0, a1, a2) + 1) by (nonlinear_arith)
        requires r + q * b0 == a0 * bb + a1, q * b1 > r * bb + a2, v2(b0, b1) == b0 * bb + b1, t3(a0, a1, a2) == (a0 * bb + a1) * bb + a2;
    assert(q * v >= (q * v2(b0, b1)) * e) by (nonlinear_arith) requires v == v2(b0, b1) * e + vl;
    assert((q * v2(b0, b1)) * e >= (t3(a0, a1, a2) + 1) * e) by (nonlinear_arith) requires q * v2(b0, b1) >= t3(a0, a1, a2) + 1;
    assert((t3(a0, a1, a2) + 1) * e == t3(a0, a1, a2) * e + e) by (nonlinear_arith);
    if q == 0 { assert(q * b1 == 0) by (nonlinear_arith) requires q == 0; }
}

/// when the refinement loop stops, q * [b0 b1] <= [a0 a1 a2]: q is at most one too large
pub proof fn lemma_kn_est_exit(e: nat, w: nat, v: nat, wl: nat, vl: nat, a0: nat, a1: nat, a2: nat, b0: nat, b1: nat, q: nat, r: nat)
    requires kn_ctx(e, w, v, wl, vl, a0, a1, a2, b0, b1), r + q * b0 == a0 * B() + a1, q < B(),
        r >= B() || q * b1 <= r * B() + a2
    ensures q * v < w + v
{
    let bb = B();
    if r >= bb {
        assert(q * b1 < bb * bb) by (nonlinear_arith) requires q < bb, b1 < bb;
        assert(r * bb >= bb * bb) by (nonlinear_arith) requires r >= bb;
    }
    assert(q * v2(b0, b1) <= t3(a0, a1, a2)) by (nonlinear_arith)
        requires r + q * b0 == a0 * bb + a1, q * b1 <= r * bb + a2, v2(b0, b1) == b0 * bb + b1, t3(a0, a1, a2) == (a0 * bb + a1) * bb + a2;
    assert(q * v == (q * v2(b0, b1)) * e + q * vl) by (nonlinear_arith) requires v == v2(b0, b1) * e + vl;
    assert((q * v2(b0, b1)) * e <= t3(a0, a1, a2) * e) by (nonlinear_arith) requires q * v2(b0, b1) <= t3(a0, a1, a2);
    assert(q * vl < bb * e) by (nonlinear_arith) requires q < bb, vl < e;
    lemma_kn_v_lower(e, v, vl, b0, b1);
}

/// value of a window of >= 2 digits in units of E = B^(len-2)
pub proof fn lemma_top2(s: Seq<u64>)
    requires s.len() >= 2
    ensures val(s) == v2(s[s.len() - 1] as nat, s[s.len() - 2] as nat) * pw((s.len() - 2) as nat) + valp(s, (s.len() - 2) as nat),
        valp(s, (s.len() - 2) as nat) < pw((s.len() - 2) as nat),
{
    let n = s.len();
    let k = (n - 2) as nat;
    let e = pw(k);
    let x1 = s[n - 1] as nat; let x2 = s[n - 2] as nat;
    assert(valp(s, n) == valp(s, (n - 1) as nat) + x1 * pw((n - 1) as nat));
    assert(valp(s, (n - 1) as nat) == valp(s, k) + x2 * pw(k));
    assert(pw((n - 1) as nat) == B() * pw(k));
    assert((x1 * B() + x2) * e == x1 * (B() * e) + x2 * e) by (nonlinear_arith);
    lemma_valp_bound(s, k);
}

pub proof fn lemma_val_update(s: Seq<u64>, j: int, x: u64)
    requires 0 <= j < s.len()
    ensures val(s.update(j, x)) + (s[j] as nat) * pw(j as nat) == val(s) + (x as nat) * pw(j as nat)
{
    let t = s.update(j, x);
    let lo = s.subrange(0, j);
    let hi = s.subrange(j + 1, s.len() as int);
    assert(s =~= (lo + seq![s[j]]) + hi);
    assert(t =~= (lo + seq![x]) + hi);
    lemma_val_concat(lo + seq![s[j]], hi);
    lemma_val_concat(lo + seq![x], hi);
    lemma_val_concat(lo, seq![s[j]]);
    lemma_val_concat(lo, seq![x]);
    lemma_val_single(s[j]);
    lemma_val_single(x);
    assert(pw(j as nat) * (s[j] as nat) == (s[j] as nat) * pw(j as nat)) by (nonlinear_arith);
    assert(pw(j as nat) * (x as nat) == (x as nat) * pw(j as nat)) by (nonlinear_arith);
}


/// multiply-subtract went through without borrow beyond the extra digit: the estimate was exact
pub proof fn lemma_kn_nofix(w: nat, v: nat, pn: nat, a0: nat, q: nat, wv0: nat, wv1: nat, borrow: nat)
    requires w == wv0 + a0 * pn, wv1 + q * v == wv0 + borrow * pn, wv1 < pn, v < pn, (q + 1) * v > w, q * v < w + v, borrow <= a0
    ensures borrow == a0, w == q * v + wv1, wv1 < v
{
    assert((q + 1) * v == q * v + v) by (nonlinear_arith);
    let k = (a0 - borrow) as nat;
    assert(a0 * pn == borrow * pn + k * pn) by (nonlinear_arith) requires a0 == borrow + k;
    if k >= 1 { assert(k * pn >= pn) by (nonlinear_arith) requires k >= 1; }
    else { assert(k * pn == 0) by (nonlinear_arith) requires k == 0; }
}

/// multiply-subtract borrowed one more than the extra digit: the estimate was one too large; adding the divisor back repairs it
pub proof fn lemma_kn_fix(w: nat, v: nat, pn: nat, a0: nat, q: nat, wv0: nat, wv1: nat, borrow: nat, wv2: nat, c: nat)
    requires w == wv0 + a0 * pn, wv1 + q * v == wv0 + borrow * pn, wv1 < pn, v < pn, (q + 1) * v > w, q * v < w + v, borrow > a0,
        wv2 + pn * c == wv1 + v, c <= 1, wv2 < pn
    ensures q >= 1, c == 1, borrow == a0 + 1, w == (q - 1) as nat * v + wv2, wv2 < v
{
    assert((q + 1) * v == q * v + v) by (nonlinear_arith);
    let k = (borrow - a0) as nat;
    assert(borrow * pn == a0 * pn + k * pn) by (nonlinear_arith) requires borrow == a0 + k;
    if k >= 2 { assert(k * pn >= 2 * pn) by (nonlinear_arith) requires k >= 2; }
    assert(k == 1);
    assert(k * pn == pn) by (nonlinear_arith) requires k == 1;
    if q == 0 { assert(q * v == 0) by (nonlinear_arith) requires q == 0; }
    if c == 0 { assert(pn * c == 0) by (nonlinear_arith) requires c == 0; } else { assert(pn * c == pn) by (nonlinear_arith) requires c == 1; }
    assert(((q - 1) as nat) * v + v == q * v) by (nonlinear_arith) requires q >= 1;
}

pub proof fn lemma_kn_step(av: nat, qh: nat, v: nat, low: nat, pj: nat, w: nat, qf: nat, r1: nat)
    requires av == qh * v + (low + pj * w), w == qf * v + r1, low < pj, r1 < v
    ensures av == (qh + qf * pj) * v + (low + pj * r1), low + pj * r1 < v * pj
{
    assert(pj * (qf * v + r1) == (qf * pj) * v + pj * r1) by (nonlinear_arith);
    assert((qh + qf * pj) * v == qh * v + (qf * pj) * v) by (nonlinear_arith);
    assert(pj * r1 + pj <= v * pj) by (nonlinear_arith) requires r1 + 1 <= v;
}

//@ extract src/biguint/division.rs :: fn sub_mul_digit_same_len rules=R0,R10x,R14 props=C03,C14
fn sub_mul_digit_same_len(a: &mut [BigDigit], b: &[BigDigit], c: BigDigit) -> /*+*/(r: /*-*/BigDigit/*+*/)/*-*/
//+{
    requires old(a).len() == b.len()
    ensures
        final(a).len() == old(a).len(),
        val(final(a)@) + (c as nat) * val(b@) == val(old(a)@) + (r as nat) * pw(b.len() as nat),
//+}
{

    // carry is between -big_digit::MAX and 0, so to avoid overflow we store
    // offset_carry = carry + big_digit::MAX
    let mut offset_carry = big_digit::MAX;
//+{
    let ghost oa = old(a)@;
    let ghost bs = b@;
    let ghost n = b.len() as nat;
    proof { assert((c as nat) * 0 == 0) by (nonlinear_arith); assert(0 * pw(0) == 0) by (nonlinear_arith); }
//+}

    { let mut i__ = 0 ; let n__ = Ord::min(a.len(), b.len()) ; while i__ < n__
//+{
        invariant
            a@.len() == n, oa.len() == n, bs.len() == n, bs == b@, n__ == n, i__ <= n,
            forall|j: int| i__ <= j < n ==> a@[j] == oa[j],
            valp(a@, i__ as nat) + (c as nat) * valp(bs, i__ as nat) == valp(oa, i__ as nat) + ((u64::MAX - offset_carry) as nat) * pw(i__ as nat),
        decreases n - i__
//+}
    {
//+{
        let ghost prev = a@;
        let ghost k = i__ as nat;
        let ghost oc0 = offset_carry;
//+}
        let x = &mut a[i__] ; let y = &b[i__] ; i__ += 1 ;
        // We want to calculate sum = x - y * c + carry.
        // sum >= -(big_digit::MAX * big_digit::MAX) - big_digit::MAX
        // sum <= big_digit::MAX
        // Offsetting sum by (big_digit::MAX << big_digit::BITS) puts it in DoubleBigDigit range.
//+{
        proof {
            let yy = *y as nat; let cc = c as nat;
            assert(yy * cc <= 0xffff_ffff_ffff_ffff * 0xffff_ffff_ffff_ffff) by (nonlinear_arith) requires yy <= 0xffff_ffff_ffff_ffff, cc <= 0xffff_ffff_ffff_ffff;
        }
//+}
        let offset_sum = big_digit::to_doublebigdigit(big_digit::MAX, *x)
            - big_digit::MAX as DoubleBigDigit
            + offset_carry as DoubleBigDigit
            - *y as DoubleBigDigit * c as DoubleBigDigit;

        let (new_offset_carry, new_x) = big_digit::from_doublebigdigit(offset_sum);
        offset_carry = new_offset_carry;
        *x = new_x;
//+{
        proof {
            lemma_valp_ext(prev, a@, k);
            lemma_submul_step(a@, oa, bs, c as nat, k, (u64::MAX - oc0) as nat, (u64::MAX - offset_carry) as nat);
        }
//+}
    }
//+{
    proof { assert(i__ == n); }
//+}
    }

    // Return the borrow.
    big_digit::MAX - offset_carry
}
//@ end


/// the running dividend [a0 | d0] seen as low digits plus the (n+1)-digit window at position j
pub proof fn lemma_kn_window(d0: Seq<u64>, j: nat, n: nat, a0: nat, v: nat, vl: nat, b0: nat, b1: nat)
    requires n >= 2, d0.len() == n + j, a0 < B(), b0 < B(), b1 < B(), b0 >= HALFB(),
        v == v2(b0, b1) * pw((n - 2) as nat) + vl, vl < pw((n - 2) as nat),
        val(d0) + a0 * pw(d0.len()) < v * pw(j + 1),
    ensures ({
        let low = d0.subrange(0, j as int);
        let w0 = d0.subrange(j as int, d0.len() as int);
        let w = val(w0) + a0 * pw(n);
        &&& val(d0) + a0 * pw(d0.len()) == val(low) + pw(j) * w
        &&& val(low) < pw(j)
        &&& val(w0) < pw(n)
        &&& kn_ctx(pw((n - 2) as nat), w, v, valp(w0, (n - 2) as nat), vl, a0, w0[n - 1] as nat, w0[n - 2] as nat, b0, b1)
    })
{
    let ll = d0.len();
    let low = d0.subrange(0, j as int);
    let w0 = d0.subrange(j as int, ll as int);
    let pj = pw(j);
    let pn = pw(n);
    let e = pw((n - 2) as nat);
    let w = val(w0) + a0 * pn;
    let wl = valp(w0, (n - 2) as nat);
    assert(d0 =~= low + w0);
    lemma_val_concat(low, w0);
    lemma_pw_add(j, n);
    lemma_top2(w0);
    lemma_valp_bound(low, j);
    lemma_valp_bound(w0, n);
    lemma_pw_add((n - 2) as nat, 2);
    lemma_pw_pos((n - 2) as nat);
    assert(pw(2) == B() * pw(1)); assert(pw(1) == B() * pw(0));
    assert(a0 * (pj * pn) == pj * (a0 * pn)) by (nonlinear_arith);
    assert(pj * (val(w0) + a0 * pn) == pj * val(w0) + pj * (a0 * pn)) by (nonlinear_arith);
    lemma_pw_pos(j);
    assert(pw(j + 1) == B() * pj);
    assert(w < v * B()) by (nonlinear_arith)
        requires val(low) + pj * w < v * (B() * pj), pj >= 1;
    assert(w == t3(a0, w0[n - 1] as nat, w0[n - 2] as nat) * e + wl) by (nonlinear_arith)
        requires w == val(w0) + a0 * pn, pn == e * (B() * (B() * 1)),
            val(w0) == v2(w0[n - 1] as nat, w0[n - 2] as nat) * e + wl,
            v2(w0[n - 1] as nat, w0[n - 2] as nat) == (w0[n - 1] as nat) * B() + (w0[n - 2] as nat),
            t3(a0, w0[n - 1] as nat, w0[n - 2] as nat) == (a0 * B() + (w0[n - 1] as nat)) * B() + (w0[n - 2] as nat);
}

/// end of one quotient digit: store it, pop the (now zero-extended) top digit of the running dividend
pub proof fn lemma_kn_iter_end(avv: nat, qd0: Seq<u64>, v: nat, low: Seq<u64>, w2: Seq<u64>, j: nat, n: nat, w: nat, q0: u64)
    requires j < qd0.len(), qd0[j as int] == 0, low.len() == j, w2.len() == n, n >= 1,
        avv == val(qd0) * v + (val(low) + pw(j) * w), w == (q0 as nat) * v + val(w2), val(w2) < v, val(low) < pw(j),
    ensures ({
        let d2 = low + w2;
        let dd = d2.drop_last();
        let top = d2[d2.len() - 1] as nat;
        &&& avv == val(qd0.update(j as int, q0)) * v + (val(dd) + top * pw(dd.len()))
        &&& val(dd) + top * pw(dd.len()) < v * pw(j)
    })
{
    let d2 = low + w2;
    let ll = d2.len();
    let pj = pw(j);
    lemma_val_concat(low, w2);
    lemma_val_update(qd0, j as int, q0);
    assert(0 * pj == 0) by (nonlinear_arith);
    lemma_kn_step(avv, val(qd0), v, val(low), pj, w, q0 as nat, val(w2));
    assert(d2 =~= d2.drop_last().push(d2[ll - 1]));
    lemma_val_push(d2.drop_last(), d2[ll - 1]);
    assert(pw((ll - 1) as nat) * (d2[ll - 1] as nat) == (d2[ll - 1] as nat) * pw((ll - 1) as nat)) by (nonlinear_arith);
}

//@ extract src/biguint/division.rs :: fn div_rem_core rules=R0,R7a,R14,R14e props=C03,C14,C15
fn div_rem_core(mut a: BigUint, b: &[BigDigit]) -> /*+*/(res: /*-*/(BigUint, BigUint)/*+*/)/*-*/
//+{
    requires a.wf(), wf(b@), b.len() > 1, a.dg().len() >= b.len(), b[b.len() - 1] >= 0x8000_0000_0000_0000u64
    ensures res.0.wf(), res.1.wf(), a.v() == res.0.v() * val(b@) + res.1.v(), res.1.v() < val(b@)
//+}
{

    // The algorithm works by incrementally calculating "guesses", q0, for the next digit of the
    // quotient. Once we have any number q0 such that (q0 << j) * b <= a, we can set
    //
    //     q += q0 << j
    //     a -= (q0 << j) * b
    //
    // and then iterate until a < b. Then, (q, a) will be our desired quotient and remainder.
    //
    // q0, our guess, is calculated by dividing the last three digits of a by the last two digits of
    // b - this will give us a guess that is close to the actual quotient, but is possibly greater.
    // It can only be greater by 1 and only in rare cases, with probability at most
    // 2^-(big_digit::BITS-1) for random a, see TAOCP 4.3.1 exercise 21.
    //
    // If the quotient turns out to be too large, we adjust it by 1:
    // q -= 1 << j
    // a += b << j

    // a0 stores an additional extra most significant digit of the dividend, not stored in a.
    let mut a0 = 0;

    // [b1, b0] are the two most significant digits of the divisor. They never change.
    let b0 = b[b.len() - 1];
    let b1 = b[b.len() - 2];

    let q_len = a.data.len() - b.len() + 1;
    let mut q = BigUint {
        data: vec![0; q_len],
    };
//+{
    let ghost av = a.data@;
    let ghost avv = val(a.data@);
    let ghost bs = b@;
    let ghost n = b.len() as nat;
    let ghost m = a.data@.len() as nat;
    let ghost v = val(bs);
    let ghost pn = pw(n);
    let ghost e = pw((n - 2) as nat);
    let ghost vl = valp(bs, (n - 2) as nat);
    proof {
        lemma_top2(bs);
        lemma_valp_bound(bs, n);
        lemma_pw_pos((n - 2) as nat);
        lemma_kn_v_lower(e, v, vl, b0 as nat, b1 as nat);
        lemma_valp_zeros(q.data@, q_len as nat);
        lemma_valp_bound(av, m);
        // val(a) < B^m <= v * B^(m-n+1)
        lemma_pw_add((n - 2) as nat, (m - n + 1) as nat);
        assert(pw(1) == B() * pw(0));
        lemma_pw_add(1, (m - 1) as nat);
        assert(v * pw((m - n + 1) as nat) >= pw(m)) by (nonlinear_arith)
            requires v >= B() * e, pw((m - 1) as nat) == e * pw((m - n + 1) as nat), pw(m) == B() * pw((m - 1) as nat);
        assert(0 * pw(m) == 0) by (nonlinear_arith);
        assert(0 * v == 0) by (nonlinear_arith);
    }
//+}

    for j in /*+*/it: /*-*/(0..q_len).rev()
//+{
        invariant
            bs == b@, n == b.len(), n >= 2, b0 == bs[n - 1], b1 == bs[n - 2], b0 >= 0x8000_0000_0000_0000u64,
            v == val(bs), pn == pw(n), v < pn, e == pw((n - 2) as nat), e > 0, vl == valp(bs, (n - 2) as nat), vl < e,
            v == v2(b0 as nat, b1 as nat) * e + vl,
            q_len == m - n + 1, q.data@.len() == q_len,
            it.seq().len() == q_len, it.index@ <= q_len,
            forall|k: int| 0 <= k < q_len ==> it.seq()[k] == q_len - 1 - k,
            a.data@.len() + it.index@ == m,
            forall|k: int| 0 <= k < q_len - it.index@ ==> q.data@[k] == 0,
            avv == val(q.data@) * v + (val(a.data@) + (a0 as nat) * pw(a.data@.len())),
            val(a.data@) + (a0 as nat) * pw(a.data@.len()) < v * pw((q_len - it.index@) as nat),
//+}
    {

//+{
        let ghost d0 = a.data@;
        let ghost ll = d0.len();
        let ghost low = d0.subrange(0, j as int);
        let ghost w0 = d0.subrange(j as int, ll as int);
        let ghost pj = pw(j as nat);
        let ghost w = val(w0) + (a0 as nat) * pn;
        let ghost wl = valp(w0, (n - 2) as nat);
        let ghost qd0 = q.data@;
        proof {
            assert(ll == n + j);
            lemma_kn_window(d0, j as nat, n, a0 as nat, v, vl, b0 as nat, b1 as nat);
            lemma_kn_a0_le_b0(e, w, v, wl, vl, a0 as nat, w0[n - 1] as nat, w0[n - 2] as nat, b0 as nat, b1 as nat);
        }
//+}
        let a1 = *a.data.last().unwrap();
        let a2 = a.data[a.data.len() - 2];

        // The first q0 estimate is [a1,a0] / b0. It will never be too small, it may be too large
        // by at most 2.
        let (mut q0, mut r) = if a0 < b0 {
            let (q0, r) = div_wide(a0, a1, b0);
//+{
            proof { lemma_kn_est_init(e, w, v, wl, vl, a0 as nat, a1 as nat, a2 as nat, b0 as nat, b1 as nat, q0 as nat, r as nat); }
//+}
            (q0, r as DoubleBigDigit)
        } else {
            // Avoid overflowing q0, we know the quotient fits in BigDigit.
            // [a1,a0] = b0 * (1<<BITS - 1) + (a0 + a1)
//+{
            proof {
                assert((0xffff_ffff_ffff_ffffnat + 1) * v == v * B()) by (nonlinear_arith);
                assert((a0 as nat) + (a1 as nat) + 0xffff_ffff_ffff_ffffnat * (b0 as nat) == (a0 as nat) * B() + (a1 as nat)) by (nonlinear_arith) requires a0 == b0;
            }
//+}
            (big_digit::MAX, a0 as DoubleBigDigit + a1 as DoubleBigDigit)
        };

        // r = [a1,a0] - q0 * b0
        //
        // Now we want to compute a more precise estimate [a2,a1,a0] / [b1,b0] which can only be
        // less or equal to the current q0.
        //
        // q0 is too large if:
        // [a2,a1,a0] < q0 * [b1,b0]
        // (r << BITS) + a2 < q0 * b1
//+{
        proof {
            assert((q0 as nat) * (b1 as nat) <= 0xffff_ffff_ffff_ffff * 0xffff_ffff_ffff_ffff) by (nonlinear_arith)
                requires (q0 as nat) <= 0xffff_ffff_ffff_ffff, (b1 as nat) <= 0xffff_ffff_ffff_ffff;
        }
//+}
        while r <= big_digit::MAX as DoubleBigDigit
            && big_digit::to_doublebigdigit(r as BigDigit, a2)
                < q0 as DoubleBigDigit * b1 as DoubleBigDigit
//+{
            invariant
                kn_ctx(e, w, v, wl, vl, a0 as nat, a1 as nat, a2 as nat, b0 as nat, b1 as nat),
                (r as nat) + (q0 as nat) * (b0 as nat) == (a0 as nat) * B() + (a1 as nat),
                r < 2 * B(),
                ((q0 as nat) + 1) * v > w,
                (q0 as nat) * (b1 as nat) <= 0xffff_ffff_ffff_ffff * 0xffff_ffff_ffff_ffff,
            ensures
                (r as nat) + (q0 as nat) * (b0 as nat) == (a0 as nat) * B() + (a1 as nat),
                ((q0 as nat) + 1) * v > w,
                (r as nat) >= B() || (q0 as nat) * (b1 as nat) <= (r as nat) * B() + (a2 as nat),
            decreases q0
//+}
        {
//+{
            proof {
                lemma_kn_est_dec(e, w, v, wl, vl, a0 as nat, a1 as nat, a2 as nat, b0 as nat, b1 as nat, q0 as nat, r as nat);
                assert((((q0 - 1) as nat) + 1) * v == (q0 as nat) * v);
                assert(((q0 - 1) as nat) * (b0 as nat) + (b0 as nat) == (q0 as nat) * (b0 as nat)) by (nonlinear_arith) requires q0 >= 1;
                assert(((q0 - 1) as nat) * (b1 as nat) <= (q0 as nat) * (b1 as nat)) by (nonlinear_arith) requires q0 >= 1;
            }
//+}
            q0 -= 1;
            r += b0 as DoubleBigDigit;
        }
//+{
        proof { lemma_kn_est_exit(e, w, v, wl, vl, a0 as nat, a1 as nat, a2 as nat, b0 as nat, b1 as nat, q0 as nat, r as nat); }
//+}

        // q0 is now either the correct quotient digit, or in rare cases 1 too large.
        // Subtract (q0 << j) from a. This may overflow, in which case we will have to correct.

        let mut borrow = sub_mul_digit_same_len(&mut a.data.as_mut_slice()[j..], b, q0);
//+{
        let ghost d1 = a.data@;
        let ghost w1 = d1.subrange(j as int, ll as int);
        let ghost q_est = q0;
        let ghost borrow1 = borrow;
        proof { lemma_valp_bound(w1, n); lemma_valp_bound(w0, n); }
//+}
        if borrow > a0 {
            // q0 is too large. We need to add back one multiple of b.
//+{
            proof {
                // q0 >= 1 here: with q0 == 0 nothing was subtracted and no borrow can arise
                if q_est == 0 {
                    assert((q_est as nat) * v == 0) by (nonlinear_arith) requires q_est == 0;
                    assert((borrow1 as nat) * pn >= ((a0 as nat) + 1) * pn) by (nonlinear_arith) requires borrow1 >= a0 + 1;
                    assert(((a0 as nat) + 1) * pn == (a0 as nat) * pn + pn) by (nonlinear_arith);
                    assert(false);
                }
            }
//+}
            q0 -= 1;
            borrow -= __add2(&mut a.data.as_mut_slice()[j..], b);
        }
        // The top digit of a, stored in a0, has now been zeroed.
//+{
        let ghost d2 = a.data@;
        let ghost w2 = d2.subrange(j as int, ll as int);
        proof {
            lemma_valp_bound(w2, n);
            if borrow1 > a0 {
                let c = (borrow1 - borrow) as nat;
                lemma_kn_fix(w, v, pn, a0 as nat, q_est as nat, val(w0), val(w1), borrow1 as nat, val(w2), c);
            } else {
                lemma_kn_nofix(w, v, pn, a0 as nat, q_est as nat, val(w0), val(w1), borrow1 as nat);
                assert(w2 =~= w1);
            }
            assert(w == (q0 as nat) * v + val(w2) && val(w2) < v);
            assert(d2 =~= low + w2);
        }
//+}

        q.data[j] = q0;
//+{
        proof {
            assert(q.data@ =~= qd0.update(j as int, q0));
            lemma_kn_iter_end(avv, qd0, v, low, w2, j as nat, n, w, q0);
        }
//+}

        // Pop off the next top digit of a.
        a0 = a.data.pop().unwrap();
    }
//+{
    let ghost dl = a.data@;
    proof {
        lemma_val_push(dl, a0);
        assert(pw(dl.len()) * (a0 as nat) == (a0 as nat) * pw(dl.len())) by (nonlinear_arith);
        assert(v * pw(0) == v) by (nonlinear_arith) requires pw(0) == 1;
    }
//+}

    a.data.push(a0);
    a.normalize();


    (q.normalized(), a)
}
//@ end

} // mod u
} // verus!
fn main() {}
