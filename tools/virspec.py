"""Dev helper: print a condensed form of a function's spec from a Verus --log-all crate.vir"""
import re, sys
def sexp(s, i=0):
    # parse s-expression into nested lists
    out=[]; stack=[out]; tok=''
    n=len(s)
    while i<n:
        c=s[i]
        if c=='"':
            j=i+1
            while s[j]!='"':
                j+= 2 if s[j]=='\\' else 1
            stack[-1].append(s[i:j+1]); i=j+1; continue
        if c=='(':
            new=[]; stack[-1].append(new); stack.append(new); i+=1; continue
        if c==')':
            stack.pop(); i+=1
            if len(stack)==0: break
            continue
        if c.isspace(): i+=1; continue
        j=i
        while j<n and not s[j].isspace() and s[j] not in '()"': j+=1
        stack[-1].append(s[i:j]); i=j
    return out
def cond(e):
    if isinstance(e,str): return e
    if not e: return ''
    h=e[0]
    if h in ('@','@@') and len(e)>=3: return cond(e[2])
    if h=='>' : return cond(e[1:]) if len(e)>2 else cond(e[1])
    if h=='Typ': return ''
    if h=='Const': return cond(e[1])
    if h=='Constant': return str(e[-1])
    if h=='Var' or h=='VarIdent': 
        return e[1].strip('"') if isinstance(e[1],str) else cond(e[1])
    if h=='Place':
        if e[1]=='Local': return cond(e[2])
        if e[1]=='Field':
            f=[x for x in e[2] if isinstance(x,str)]
            fld=e[2][e[2].index(':field')+1] if ':field' in e[2] else '?'
            return cond(e[3])+'.'+fld.strip('"')
        if e[1] in('DerefMut','Temporary'): return ('*' if e[1]=='DerefMut' else '')+cond(e[2])
        return ' '.join(cond(x) for x in e[1:])
    if h=='ReadPlace': return cond(e[1])
    if h=='Call':
        t=e[e.index(':target')+1]
        name='?'
        def findfun(x):
            if isinstance(x,list):
                if len(x)>=3 and x[0]=='Fun' and x[1]==':path': return x[2]
                for y in x:
                    r=findfun(y)
                    if r: return r
            return None
        name=findfun(t) or '?'
        args=e[e.index(':args')+1]
        return name.split('::')[-1]+'('+', '.join(cond(a) for a in args)+')'
    if h in('Binary','Logical','Multi'):
        return '('+h+' '+' '.join(cond(x) for x in e[1:])+')'
    if h in ('BinaryOp','LogicalOp','InequalityOp','MultiOp','ChainedOp','UnaryOp','ArithOp'):
        return ' '.join(x if isinstance(x,str) else cond(x) for x in e[1:])
    if h=='UnfinalizedReadKind': return ''
    if h=='Quant' or h=='Bind':
        return '('+' '.join(cond(x) for x in e)+')'
    return '('+' '.join(c for c in (cond(x) for x in e) if c)+')'
def main():
    path,name=sys.argv[1],sys.argv[2]
    s=open(path).read()
    idx=[m.start() for m in re.finditer(r'\(Function\s+:name \(Fun :path '+re.escape(name)+r'\)',s)]
    for j in idx[:1]:
        e=sexp(s,j)[0]
        for key in (':params',':require',':ensure'):
            if key in e:
                v=e[e.index(key)+1]
                print(key)
                for x in v:
                    print('   ',re.sub(r'\s+',' ',cond(x))[:1500])
main()
