// Value-level meaning of bit positions: bit k of v is (v / 2^k) % 2; digit i, bit b of a digit sequence is bit 64*i + b of its value.
pub open spec fn bitv(v: nat, k: nat) -> bool { (v / vstd::arithmetic::power2::pow2(k)) % 2 == 1 }

pub proof fn lemma_pw_p2_(k: nat)
    ensures pw(k) == vstd::arithmetic::power2::pow2(64 * k)
    decreases k
{
    vstd::arithmetic::power2::lemma2_to64();
    if k > 0 {
        lemma_pw_p2_((k - 1) as nat);
        vstd::arithmetic::power2::lemma_pow2_adds(64, 64 * ((k - 1) as nat));
        assert(64 + 64 * ((k - 1) as nat) == 64 * k);
    }
}

/// s == low digits, digit i, high digits
pub proof fn lemma_digit_split(s: Seq<u64>, i: nat)
    requires i < s.len()
    ensures val(s) == valp(s, i) + pw(i) * ((s[i as int] as nat) + B() * val(s.subrange(i as int + 1, s.len() as int))), valp(s, i) < pw(i)
{
    let n = s.len();
    let t = s.subrange(i as int, n as int);
    let u = s.subrange(i as int + 1, n as int);
    lemma_valp_split(s, i, (n - i) as nat);
    assert(t =~= seq![s[i as int]] + u);
    lemma_val_concat(seq![s[i as int]], u);
    lemma_val_single(s[i as int]);
    assert(pw(1) == B() * pw(0));
    lemma_valp_bound(s, i);
}

/// quotient of v == lo + B^i * (d + B * hi) by 2^(64 i + b)
pub proof fn lemma_shift_out(v: nat, lo: nat, i: nat, d: nat, hi: nat, b: nat)
    requires v == lo + pw(i) * (d + B() * hi), lo < pw(i), b < 64
    ensures
        v / vstd::arithmetic::power2::pow2(64 * i + b) == d / vstd::arithmetic::power2::pow2(b) + vstd::arithmetic::power2::pow2((64 - b) as nat) * hi,
        vstd::arithmetic::power2::pow2((64 - b) as nat) % 2 == 0,
{
    let pi = pw(i);
    let pb = vstd::arithmetic::power2::pow2(b);
    let pc = vstd::arithmetic::power2::pow2((64 - b) as nat);
    let x = d + B() * hi;
    lemma_pw_p2_(i);
    lemma_pw_pos(i);
    vstd::arithmetic::power2::lemma_pow2_adds(64 * i, b);
    vstd::arithmetic::power2::lemma_pow2_adds(b, (64 - b) as nat);
    vstd::arithmetic::power2::lemma_pow2_pos(b);
    vstd::arithmetic::power2::lemma2_to64();
    assert(pb * pc == B());
    // v / pi == x
    assert(pi * x == x * pi) by (nonlinear_arith);
    vstd::arithmetic::div_mod::lemma_fundamental_div_mod_converse(v as int, pi as int, x as int, lo as int);
    vstd::arithmetic::div_mod::lemma_div_denominator(v as int, pi as int, pb as int);
    // x / pb == d / pb + pc * hi
    vstd::arithmetic::div_mod::lemma_fundamental_div_mod(d as int, pb as int);
    vstd::arithmetic::div_mod::lemma_mod_bound(d as int, pb as int);
    assert(x == (d / pb + pc * hi) * pb + d % pb) by (nonlinear_arith)
        requires x == d + B() * hi, pb * pc == B(), d == pb * (d / pb) + d % pb;
    vstd::arithmetic::div_mod::lemma_fundamental_div_mod_converse(x as int, pb as int, (d / pb + pc * hi) as int, (d % pb) as int);
    // pc is even
    vstd::arithmetic::power2::lemma_pow2_unfold((64 - b) as nat);
    assert(pc == 2 * vstd::arithmetic::power2::pow2((63 - b) as nat));
    assert((2 * vstd::arithmetic::power2::pow2((63 - b) as nat)) % 2 == 0) by (nonlinear_arith);
}

/// bit 64*i + b of val(s) is bit b of digit i (0 beyond the last digit)
pub proof fn lemma_bit_of_digit(s: Seq<u64>, i: nat, b: u64)
    requires b < 64
    ensures bitv(val(s), 64 * i + b as nat) == (i < s.len() && (s[i as int] >> b) & 1 == 1)
{
    let k = 64 * i + b as nat;
    let pk = vstd::arithmetic::power2::pow2(k);
    vstd::arithmetic::power2::lemma_pow2_pos(k);
    if i < s.len() {
        let d = s[i as int];
        let hi = val(s.subrange(i as int + 1, s.len() as int));
        lemma_digit_split(s, i);
        lemma_shift_out(val(s), valp(s, i), i, d as nat, hi, b as nat);
        let pc = vstd::arithmetic::power2::pow2((64 - b) as nat);
        vstd::bits::lemma_u64_shr_is_div(d, b);
        assert(((d >> b) & 1 == 1) == ((d >> b) % 2 == 1)) by (bit_vector);
        let a = (d as nat) / vstd::arithmetic::power2::pow2(b as nat);
        let h2 = pc / 2;
        vstd::arithmetic::div_mod::lemma_fundamental_div_mod(pc as int, 2);
        assert(pc * hi == 2 * (h2 * hi)) by (nonlinear_arith) requires pc == 2 * h2;
        vstd::arithmetic::div_mod::lemma_mod_multiples_vanish((h2 * hi) as int, a as int, 2);
        assert((a + pc * hi) % 2 == a % 2);
    } else {
        lemma_valp_bound(s, s.len());
        lemma_pw_p2_(s.len());
        lemma_pw_p2_(i);
        lemma_pw_mono(s.len(), i);
        vstd::arithmetic::power2::lemma_pow2_adds(64 * i, b as nat);
        vstd::arithmetic::power2::lemma_pow2_pos(b as nat);
        assert(pw(i) * vstd::arithmetic::power2::pow2(b as nat) >= pw(i)) by (nonlinear_arith) requires vstd::arithmetic::power2::pow2(b as nat) >= 1;
        vstd::arithmetic::div_mod::lemma_basic_div(val(s) as int, pk as int);
    }
}

pub proof fn lemma_val_update_(s: Seq<u64>, j: int, x: u64)
    requires 0 <= j < s.len()
    ensures val(s.update(j, x)) + (s[j] as nat) * pw(j as nat) == val(s) + (x as nat) * pw(j as nat)
{
    let t = s.update(j, x);
    let lo = s.subrange(0, j);
    let hi = s.subrange(j + 1, s.len() as int);
    assert(s =~= (lo + seq![s[j]]) + hi);
    assert(t =~= (lo + seq![x]) + hi);
    lemma_val_concat(lo + seq![s[j]], hi);
    lemma_val_concat(lo + seq![x], hi);
    lemma_val_concat(lo, seq![s[j]]);
    lemma_val_concat(lo, seq![x]);
    lemma_val_single(s[j]);
    lemma_val_single(x);
    assert(pw(j as nat) * (s[j] as nat) == (s[j] as nat) * pw(j as nat)) by (nonlinear_arith);
    assert(pw(j as nat) * (x as nat) == (x as nat) * pw(j as nat)) by (nonlinear_arith);
}

/// appending zero digits keeps the value
pub proof fn lemma_val_zero_ext(s: Seq<u64>, t: Seq<u64>)
    requires t.len() >= s.len(), forall|j: int| 0 <= j < s.len() ==> t[j] == s[j], forall|j: int| s.len() <= j < t.len() ==> t[j] == 0
    ensures val(t) == val(s)
{
    let z = t.subrange(s.len() as int, t.len() as int);
    assert(t =~= s + z);
    lemma_val_concat(s, z);
    lemma_valp_zeros(z, z.len());
    assert(pw(s.len()) * 0 == 0) by (nonlinear_arith);
}

/// x = 2^t * odd: divisible by 2^s exactly for s <= t
pub proof fn lemma_tz_round(m: nat, t: nat, s: nat)
    requires m % vstd::arithmetic::power2::pow2(t) == 0, bitv(m, t)
    ensures (m % vstd::arithmetic::power2::pow2(s) == 0) == (s <= t)
{
    vstd::arithmetic::power2::lemma_pow2_pos(t);
    vstd::arithmetic::power2::lemma_pow2_pos(s);
    let y = m / vstd::arithmetic::power2::pow2(t);
    vstd::arithmetic::div_mod::lemma_fundamental_div_mod(m as int, vstd::arithmetic::power2::pow2(t) as int);
    assert(m == vstd::arithmetic::power2::pow2(t) * y);
    if s <= t {
        vstd::arithmetic::power2::lemma_pow2_adds(s, (t - s) as nat);
        assert(m == (vstd::arithmetic::power2::pow2((t - s) as nat) * y) * vstd::arithmetic::power2::pow2(s)) by (nonlinear_arith) requires m == vstd::arithmetic::power2::pow2(t) * y, vstd::arithmetic::power2::pow2(t) == vstd::arithmetic::power2::pow2(s) * vstd::arithmetic::power2::pow2((t - s) as nat);
        vstd::arithmetic::div_mod::lemma_mod_multiples_basic((vstd::arithmetic::power2::pow2((t - s) as nat) * y) as int, vstd::arithmetic::power2::pow2(s) as int);
    } else if m % vstd::arithmetic::power2::pow2(s) == 0 {
        let z = m / vstd::arithmetic::power2::pow2(s);
        vstd::arithmetic::div_mod::lemma_fundamental_div_mod(m as int, vstd::arithmetic::power2::pow2(s) as int);
        vstd::arithmetic::power2::lemma_pow2_adds(t, (s - t) as nat);
        // vstd::arithmetic::power2::pow2(t) * y == vstd::arithmetic::power2::pow2(t) * vstd::arithmetic::power2::pow2(s - t) * z  ==>  y == vstd::arithmetic::power2::pow2(s - t) * z, even
        assert(y == vstd::arithmetic::power2::pow2((s - t) as nat) * z) by (nonlinear_arith)
            requires vstd::arithmetic::power2::pow2(t) * y == vstd::arithmetic::power2::pow2(s) * z, vstd::arithmetic::power2::pow2(s) == vstd::arithmetic::power2::pow2(t) * vstd::arithmetic::power2::pow2((s - t) as nat), vstd::arithmetic::power2::pow2(t) > 0;
        vstd::arithmetic::power2::lemma_pow2_unfold((s - t) as nat);
        let h = vstd::arithmetic::power2::pow2((s - t - 1) as nat);
        assert(y == 2 * (h * z)) by (nonlinear_arith) requires y == vstd::arithmetic::power2::pow2((s - t) as nat) * z, vstd::arithmetic::power2::pow2((s - t) as nat) == 2 * h;
        vstd::arithmetic::div_mod::lemma_mod_multiples_basic((h * z) as int, 2);
        assert(false);
    }
}

