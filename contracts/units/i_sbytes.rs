//@ unit i_sbytes : two's-complement byte import/export of BigInt: from/to_signed_bytes_le/be, twos_complement (src/bigint/convert.rs)
#![feature(allocator_api)]
use vstd::prelude::*;
use vstd::std_specs::iter::IteratorSpec;
use vstd::arithmetic::power2::pow2;
verus! {
//@ include prelude/core.rs
//@ include prelude/std_specs.rs
//@ include prelude/panic.rs
//@ include prelude/radixval.rs
//@ extract src/bigint.rs :: enum Sign attrs=1
#[derive(/*+*/Structural, /*-*/PartialEq, PartialOrd, Eq, Ord, Copy, Clone, Debug, Hash)]
pub enum Sign {
    Minus,
    NoSign,
    Plus,
}
//@ end
pub mod u {
use super::*;

//@ extract src/biguint.rs :: struct BigUint
pub struct BigUint {
    data: Vec<BigDigit>,
}
//@ end
//@ include prelude/biguint_view.rs
pub open spec fn p2(k: nat) -> nat { pow2(k) }
impl BigUint {
//@ extract src/biguint.rs :: impl BigUint :: const ZERO rules=R9,R13 label=BigUint_ZERO
    exec const ZERO: Self /*+*/ensures Self::ZERO.data@.len() == 0 /*-*/{ BigUint { data: Vec::new() } }
//@ end
//@ stub u_digits/to_bytes_le
//@ stub u_digits/to_bytes_be
//@ stub u_digits/from_bytes_le
//@ stub u_digits/from_bytes_be
}

//@ extract src/bigint.rs :: struct BigInt
pub struct BigInt {
    sign: Sign,
    data: BigUint,
}
//@ end
//@ include prelude/bigint_view.rs
impl BigInt {
//@ extract src/bigint.rs :: impl BigInt :: const ZERO rules=R9,R13
    exec const ZERO: Self /*+*/ensures Self::ZERO.wfi(), Self::ZERO.iv() == 0 /*-*/{ BigInt {
        sign: NoSign,
        data: BigUint::ZERO,
    } }
//@ end
//@ stub i_core/from_biguint
}
use Sign::*;

/// the integer denoted by a little-endian two's-complement byte string (empty: zero)
pub open spec fn sval8(s: Seq<u8>) -> int {
    if s.len() == 0 { 0 } else { valb(s, 8, s.len()) as int - (if s[s.len() - 1] > 0x7f { p2(8 * s.len()) as int } else { 0 }) }
}
/// n bytes suffice for v
pub open spec fn fits8(v: int, n: nat) -> bool { n >= 1 && -(p2((8 * n - 1) as nat) as int) <= v < p2((8 * n - 1) as nat) as int }

pub proof fn lemma_bytes_lt(s: Seq<u8>, n: nat)
    requires n <= s.len()
    ensures valb(s, 8, n) < p2(8 * n)
{
    vstd::arithmetic::power2::lemma2_to64();
    assert forall|i: int| 0 <= i < n implies (#[trigger] s[i] as nat) < pow2(8) by { }
    lemma_valb_bound(s, 8, n);
}

/// the top byte decides on which side of 2^(8n-1) the value lies
pub proof fn lemma_top_byte(s: Seq<u8>, n: nat)
    requires 1 <= n <= s.len()
    ensures (s[n - 1] > 0x7f) == (valb(s, 8, n) >= p2((8 * n - 1) as nat)),
        valb(s, 8, n) == valb(s, 8, (n - 1) as nat) + (s[n - 1] as nat) * p2(8 * ((n - 1) as nat)),
        valb(s, 8, (n - 1) as nat) < p2(8 * ((n - 1) as nat)),
        p2((8 * n - 1) as nat) == 128 * p2(8 * ((n - 1) as nat)), p2(8 * n) == 256 * p2(8 * ((n - 1) as nat)),
        valb(s, 8, n) < p2(8 * n),
        s[n - 1] != 0 ==> valb(s, 8, n) >= p2(8 * ((n - 1) as nat)),
{
    let m = (n - 1) as nat;
    lemma_bytes_lt(s, m);
    lemma_bytes_lt(s, n);
    vstd::arithmetic::power2::lemma2_to64();
    vstd::arithmetic::power2::lemma_pow2_adds(8 * m, 7);
    vstd::arithmetic::power2::lemma_pow2_adds(8 * m, 8);
    let p = p2(8 * m);
    let t = s[n - 1] as nat;
    if t > 0x7f { assert(t * p >= 128 * p) by (nonlinear_arith) requires t >= 128; }
    else { assert(t * p + p <= 128 * p) by (nonlinear_arith) requires t + 1 <= 128; }
    if t != 0 { assert(t * p >= p) by (nonlinear_arith) requires t >= 1; }
}

//@ extract src/bigint/convert.rs :: fn twos_complement rules=R0,R3dz,R10 tysub=<'a,~I>=>;digits:~I=>digits:~&mut~[u8];where~I:~IntoIterator<Item~=~&'a~mut~u8>,=> props=C09 label=twos_complement_fwd
fn twos_complement(digits: &mut [u8])
//+{
    ensures final(digits)@.len() == old(digits)@.len(),
        valb(final(digits)@, 8, old(digits)@.len()) == (if valb(old(digits)@, 8, old(digits)@.len()) == 0 { 0 } else { (p2(8 * old(digits)@.len()) - valb(old(digits)@, 8, old(digits)@.len())) as nat }),
//+}
{
//+{
    let ghost s0 = digits@;
    proof { vstd::arithmetic::power2::lemma2_to64(); assert(8 * 0 == 0); }
//+}
    let mut carry = true;
    { let mut i__ = 0; while i__ < digits.len()
//+{
        invariant
            digits@.len() == s0.len(), i__ <= s0.len(),
            carry == (valb(s0, 8, i__ as nat) == 0),
            valb(digits@, 8, i__ as nat) + (if carry { p2(8 * (i__ as nat)) } else { 0 }) == p2(8 * (i__ as nat)) - valb(s0, 8, i__ as nat),
            forall|j: int| i__ <= j < s0.len() ==> digits@[j] == s0[j],
        decreases s0.len() - i__
//+}
    {
//+{
        let ghost pre = digits@;
//+}
        let d = &mut digits[i__]; i__ += 1;
//+{
        let ghost k = (i__ - 1) as nat;
        let ghost d0 = *d;
        let ghost c0 = carry;
        proof {
            vstd::arithmetic::power2::lemma_pow2_adds(8 * k, 8);
            vstd::arithmetic::power2::lemma2_to64();
            vstd::arithmetic::power2::lemma_pow2_pos(8 * k);
            assert(!d0 == 255u8 - d0) by (bit_vector);
        }
//+}
        *d = !*d;
        if carry {
            *d = d.wrapping_add(1);
            carry = (*d == 0);
        }
//+{
        proof {
            let nd = *d;
            let p = p2(8 * k);
            // nd + 256 * c1 == 255 - d0 + c0
            let c0n: nat = if c0 { 1 } else { 0 };
            let c1n: nat = if carry { 1 } else { 0 };
            assert(nd as nat + 256 * c1n == 255 - d0 as nat + c0n);
            assert(carry == (c0 && d0 == 0));
            assert((d0 as nat) * p == 0 <==> d0 == 0) by (nonlinear_arith) requires p > 0;
            assert((nd as nat) * p + c1n * (256 * p) == 256 * p - p - (d0 as nat) * p + c0n * p) by (nonlinear_arith)
                requires nd as nat + 256 * c1n == 255 - d0 as nat + c0n;
        }
//+}
//+{
        proof {
            lemma_valb_ext(pre, digits@, 8, (i__ - 1) as nat);
            assert(pre[(i__ - 1) as int] == s0[(i__ - 1) as int]);
        }
//+}
    } }
//+{
    proof {
        let n = s0.len();
        lemma_bytes_lt(s0, n);
        lemma_bytes_lt(digits@, n);
    }
//+}
}
//@ end

// the instance I = Rev<IterMut<u8>> of the generic twos_complement (big-endian byte order), see rules R10rv / R31
//@ extract src/bigint/convert.rs :: fn twos_complement rules=R0,R3dz,R10rv rename=twos_complement_rev tysub=<'a,~I>=>;digits:~I=>digits:~&mut~[u8];where~I:~IntoIterator<Item~=~&'a~mut~u8>,=> props=C09 label=twos_complement_rev
fn twos_complement_rev(digits: &mut [u8])
//+{
    ensures final(digits)@.len() == old(digits)@.len(),
        valb(rev8(final(digits)@), 8, old(digits)@.len()) == (if valb(rev8(old(digits)@), 8, old(digits)@.len()) == 0 { 0 } else { (p2(8 * old(digits)@.len()) - valb(rev8(old(digits)@), 8, old(digits)@.len())) as nat }),
//+}
{
//+{
    let ghost s0 = digits@;
    let ghost n = s0.len();
    proof { vstd::arithmetic::power2::lemma2_to64(); assert(8 * 0 == 0); }
//+}
    let mut carry = true;
    { let mut i__ = digits.len(); while i__ > 0
//+{
        invariant
            digits@.len() == n, s0.len() == n, i__ <= n,
            carry == (valb(rev8(s0), 8, (n - i__) as nat) == 0),
            valb(rev8(digits@), 8, (n - i__) as nat) + (if carry { p2(8 * ((n - i__) as nat)) } else { 0 }) == p2(8 * ((n - i__) as nat)) - valb(rev8(s0), 8, (n - i__) as nat),
            forall|j: int| 0 <= j < i__ ==> digits@[j] == s0[j],
        decreases i__
//+}
    {
//+{
        let ghost pre = digits@;
//+}
        i__ -= 1; let d = &mut digits[i__];
//+{
        let ghost k = (n - 1 - i__) as nat;
        let ghost d0 = *d;
        let ghost c0 = carry;
        proof {
            vstd::arithmetic::power2::lemma_pow2_adds(8 * k, 8);
            vstd::arithmetic::power2::lemma2_to64();
            vstd::arithmetic::power2::lemma_pow2_pos(8 * k);
            assert(!d0 == 255u8 - d0) by (bit_vector);
        }
//+}
        *d = !*d;
        if carry {
            *d = d.wrapping_add(1);
            carry = (*d == 0);
        }
//+{
        proof {
            let nd = *d;
            let p = p2(8 * k);
            let c0n: nat = if c0 { 1 } else { 0 };
            let c1n: nat = if carry { 1 } else { 0 };
            assert(nd as nat + 256 * c1n == 255 - d0 as nat + c0n);
            assert(carry == (c0 && d0 == 0));
            assert((d0 as nat) * p == 0 <==> d0 == 0) by (nonlinear_arith) requires p > 0;
            assert((nd as nat) * p + c1n * (256 * p) == 256 * p - p - (d0 as nat) * p + c0n * p) by (nonlinear_arith)
                requires nd as nat + 256 * c1n == 255 - d0 as nat + c0n;
        }
//+}
//+{
        proof {
            lemma_valb_ext(rev8(pre), rev8(digits@), 8, k);
            assert(rev8(pre)[k as int] == s0[i__ as int]);
            assert(rev8(s0)[k as int] == s0[i__ as int]);
            assert(rev8(digits@)[k as int] == digits@[i__ as int]);
        }
//+}
    } }
}
//@ end

//@ extract src/bigint/convert.rs :: fn twos_complement_le props=C09
fn twos_complement_le(digits: &mut [u8])
//+{
    ensures final(digits)@.len() == old(digits)@.len(),
        valb(final(digits)@, 8, old(digits)@.len()) == (if valb(old(digits)@, 8, old(digits)@.len()) == 0 { 0 } else { (p2(8 * old(digits)@.len()) - valb(old(digits)@, 8, old(digits)@.len())) as nat }),
//+}
{
    twos_complement(digits)
}
//@ end

//@ extract src/bigint/convert.rs :: fn twos_complement_be rules=R0,R31 props=C09
fn twos_complement_be(digits: &mut [u8])
//+{
    ensures final(digits)@.len() == old(digits)@.len(),
        valb(rev8(final(digits)@), 8, old(digits)@.len()) == (if valb(rev8(old(digits)@), 8, old(digits)@.len()) == 0 { 0 } else { (p2(8 * old(digits)@.len()) - valb(rev8(old(digits)@), 8, old(digits)@.len())) as nat }),
//+}
{
    twos_complement_rev(digits)
}
//@ end

//@ extract src/bigint/convert.rs :: fn from_signed_bytes_le rules=R0,R30e props=C09,C04
pub(super) fn from_signed_bytes_le(digits: &[u8]) -> /*+*/(r: /*-*/BigInt/*+*/)/*-*/
//+{
    ensures r.wfi(), r.iv() == sval8(digits@)
//+}
{
//+{
    let ghost d0 = digits@;
    proof {
        if digits@.len() > 0 { lemma_top_byte(digits@, digits@.len()); }
        lemma_sgn_mul_all(Sign::Minus); lemma_sgn_mul_all(Sign::Plus);
        vstd::arithmetic::power2::lemma_pow2_pos(0);
    }
//+}
    let sign = match digits.last() {
        Some(v) if *v > 0x7f => Sign::Minus,
        Some(_) => Sign::Plus,
        None => return BigInt::ZERO,
    };

    if sign == Sign::Minus {
        // two's-complement the content to retrieve the magnitude
        let mut digits = digits.to_vec();
//+{
        assert(digits@ == d0);
//+}
        twos_complement_le(&mut digits);
//+{
        proof {
            let n = d0.len();
            assert(digits@.len() == n);
            assert(valb(d0, 8, n) != 0);
            assert(valb(d0, 8, n) >= p2((8 * n - 1) as nat));
            assert(valb(digits@, 8, n) == p2(8 * n) - valb(d0, 8, n));
            assert(sval8(d0) == -(valb(digits@, 8, n) as int));
        }
//+}
        BigInt::from_biguint(sign, BigUint::from_bytes_le(&digits))
    } else {
        BigInt::from_biguint(sign, BigUint::from_bytes_le(digits))
    }
}
//@ end

//@ extract src/bigint/convert.rs :: fn from_signed_bytes_be rules=R0,R30e props=C09,C04
pub(super) fn from_signed_bytes_be(digits: &[u8]) -> /*+*/(r: /*-*/BigInt/*+*/)/*-*/
//+{
    ensures r.wfi(), r.iv() == sval8(rev8(digits@))
//+}
{
//+{
    let ghost d0 = digits@;
    proof {
        if digits@.len() > 0 { lemma_top_byte(rev8(digits@), digits@.len()); assert(rev8(d0)[d0.len() - 1] == d0[0]); }
        lemma_sgn_mul_all(Sign::Minus); lemma_sgn_mul_all(Sign::Plus);
    }
//+}
    let sign = match digits.first() {
        Some(v) if *v > 0x7f => Sign::Minus,
        Some(_) => Sign::Plus,
        None => return BigInt::ZERO,
    };

    if sign == Sign::Minus {
        // two's-complement the content to retrieve the magnitude
        let mut digits = digits.to_vec();
//+{
        assert(digits@ == d0);
//+}
        twos_complement_be(&mut digits);
//+{
        proof {
            let n = d0.len();
            assert(digits@.len() == n);
            assert(rev8(d0)[n - 1] == d0[0]);
            assert(valb(rev8(d0), 8, n) != 0);
            assert(valb(rev8(digits@), 8, n) == p2(8 * n) - valb(rev8(d0), 8, n));
            assert(sval8(rev8(d0)) == -(valb(rev8(digits@), 8, n) as int));
        }
//+}
        BigInt::from_biguint(sign, BigUint::from_bytes_be(&digits))
    } else {
        BigInt::from_biguint(sign, BigUint::from_bytes_be(digits))
    }
}
//@ end

pub proof fn lemma_valb_zero_iff(s: Seq<u8>, n: nat)
    requires n <= s.len()
    ensures (valb(s, 8, n) == 0) == (forall|j: int| 0 <= j < n ==> s[j] == 0)
    decreases n
{
    if n > 0 {
        let m = (n - 1) as nat;
        lemma_valb_zero_iff(s, m);
        vstd::arithmetic::power2::lemma_pow2_pos(8 * m);
        let t = s[m as int] as nat;
        let p = p2(8 * m);
        if t == 0 { assert(t * p == 0) by (nonlinear_arith) requires t == 0; }
        else { assert(t * p > 0) by (nonlinear_arith) requires t > 0, p > 0; }
        if valb(s, 8, n) == 0 {
            assert forall|j: int| 0 <= j < n implies s[j] == 0 by { if j < m { } }
        }
    }
}

/// does the magnitude's top byte force an extra byte?  (the decision made by to_signed_bytes_*)
pub open spec fn needs_pad(b0: Seq<u8>, neg: bool) -> bool {
    let last = b0[b0.len() - 1];
    last > 0x7f && !(last == 0x80 && (forall|j: int| 0 <= j < b0.len() - 1 ==> b0[j] == 0) && neg)
}

/// the shortest two's-complement encoding, from the magnitude's bytes
pub proof fn lemma_signed_enc(b0: Seq<u8>, m: nat, neg: bool, res: Seq<u8>)
    requires b0.len() >= 1, valb(b0, 8, b0.len()) == m, m == 0 ==> b0 =~= seq![0u8], m != 0 ==> b0[b0.len() - 1] != 0, neg ==> m > 0,
        res.len() == (if needs_pad(b0, neg) { b0.len() + 1 } else { b0.len() }),
        !neg ==> res =~= (if needs_pad(b0, neg) { b0.push(0u8) } else { b0 }),
        neg ==> valb(res, 8, res.len()) == p2(8 * res.len()) - m,
    ensures sval8(res) == (if neg { -(m as int) } else { m as int }),
        res.len() == 1 || !fits8(if neg { -(m as int) } else { m as int }, (res.len() - 1) as nat)
{
    let n0 = b0.len();
    let n = res.len();
    lemma_top_byte(b0, n0);
    lemma_valb_zero_iff(b0, (n0 - 1) as nat);
    vstd::arithmetic::power2::lemma2_to64();
    let pl = p2(8 * ((n0 - 1) as nat));
    vstd::arithmetic::power2::lemma_pow2_pos(8 * ((n0 - 1) as nat));
    // m == 2^(8 n0 - 1) exactly when the top byte is 0x80 and the rest is zero
    let last = b0[n0 - 1] as nat;
    assert((m == 128 * pl) == (last == 0x80 && valb(b0, 8, (n0 - 1) as nat) == 0)) by (nonlinear_arith)
        requires m == valb(b0, 8, (n0 - 1) as nat) + last * pl, valb(b0, 8, (n0 - 1) as nat) < pl, pl > 0;
    if n0 >= 2 {
        // 2^(8(n0-1)-1) < 2^(8(n0-1))
        vstd::arithmetic::power2::lemma_pow2_strictly_increases((8 * (n0 - 1) - 1) as nat, 8 * ((n0 - 1) as nat));
    }
    if needs_pad(b0, neg) {
        let b1 = b0.push(0u8);
        lemma_valb_ext(b0, b1, 8, n0);
        vstd::arithmetic::power2::lemma_pow2_adds(8 * n0, 8);
        vstd::arithmetic::power2::lemma_pow2_adds(8 * n0, 7);
        assert(0 * p2(8 * n0) == 0) by (nonlinear_arith);
        assert(valb(b1, 8, n0 + 1) == m);
        lemma_top_byte(res, n);
        assert((8 * n - 1) as nat == 8 * n0 + 7);
    } else {
        lemma_top_byte(res, n);
    }
}

//@ extract src/bigint/convert.rs :: fn to_signed_bytes_le rules=R0,R30a,R30c props=C09
pub(super) fn to_signed_bytes_le(x: &BigInt) -> /*+*/(res: /*-*/Vec<u8>/*+*/)/*-*/
//+{
    requires x.wfi()
    ensures res@.len() >= 1, sval8(res@) == x.iv(), res@.len() == 1 || !fits8(x.iv(), (res@.len() - 1) as nat)
//+}
{
//+{
    proof { lemma_sgn_mul(x.sign, x.data.v()); }
//+}
    let mut bytes = x.data.to_bytes_le();
//+{
    let ghost b0 = bytes@;
//+}
    let last_byte = __last_or_zero(&bytes);
    if last_byte > 0x7f
        && !(last_byte == 0x80
            && __all_zero_but_last(&bytes)
            && x.sign == Sign::Minus)
    {
        // msb used by magnitude, extend by 1 byte
        bytes.push(0);
    }
//+{
    let ghost b1 = bytes@;
    proof {
        if needs_pad(b0, x.sign == Sign::Minus) {
            lemma_valb_ext(b0, b1, 8, b0.len());
            assert(0 * p2(8 * b0.len()) == 0) by (nonlinear_arith);
        }
        lemma_top_byte(b0, b0.len());
        if x.sign == Sign::Minus { lemma_bytes_lt(b1, b1.len()); }
    }
//+}
    if x.sign == Sign::Minus {
        twos_complement_le(&mut bytes);
    }
//+{
    proof { lemma_signed_enc(b0, x.data.v(), x.sign == Sign::Minus, bytes@); }
//+}
    bytes
}
//@ end

//@ extract src/bigint/convert.rs :: fn to_signed_bytes_be rules=R0,R30b,R30d props=C09
pub(super) fn to_signed_bytes_be(x: &BigInt) -> /*+*/(res: /*-*/Vec<u8>/*+*/)/*-*/
//+{
    requires x.wfi()
    ensures res@.len() >= 1, sval8(rev8(res@)) == x.iv(), res@.len() == 1 || !fits8(x.iv(), (res@.len() - 1) as nat)
//+}
{
//+{
    proof { lemma_sgn_mul(x.sign, x.data.v()); }
//+}
    let mut bytes = x.data.to_bytes_be();
//+{
    let ghost b0 = rev8(bytes@);
    proof {
        assert(b0[b0.len() - 1] == bytes@[0]);
        assert((forall|j: int| 1 <= j < bytes@.len() ==> bytes@[j] == 0) == (forall|j: int| 0 <= j < b0.len() - 1 ==> b0[j] == 0)) by {
            if forall|j: int| 1 <= j < bytes@.len() ==> bytes@[j] == 0 {
                assert forall|j: int| 0 <= j < b0.len() - 1 implies b0[j] == 0 by { assert(b0[j] == bytes@[b0.len() - 1 - j]); }
            }
            if forall|j: int| 0 <= j < b0.len() - 1 ==> b0[j] == 0 {
                assert forall|j: int| 1 <= j < bytes@.len() implies bytes@[j] == 0 by { assert(b0[b0.len() - 1 - j] == bytes@[j]); }
            }
        }
        if x.data.v() == 0 { assert(b0 =~= seq![0u8]); }
    }
//+}
    let first_byte = __first_or_zero(&bytes);
    if first_byte > 0x7f
        && !(first_byte == 0x80 && __all_zero_but_first(&bytes) && x.sign == Sign::Minus)
    {
        // msb used by magnitude, extend by 1 byte
        bytes.insert(0, 0);
    }
//+{
    let ghost b1 = rev8(bytes@);
    proof {
        if needs_pad(b0, x.sign == Sign::Minus) {
            assert(b1 =~= b0.push(0u8));
            lemma_valb_ext(b0, b1, 8, b0.len());
            assert(0 * p2(8 * b0.len()) == 0) by (nonlinear_arith);
        } else {
            assert(b1 =~= b0);
        }
        lemma_top_byte(b0, b0.len());
        if x.sign == Sign::Minus { lemma_bytes_lt(b1, b1.len()); }
    }
//+}
    if x.sign == Sign::Minus {
        twos_complement_be(&mut bytes);
    }
//+{
    proof { lemma_signed_enc(b0, x.data.v(), x.sign == Sign::Minus, rev8(bytes@)); }
//+}
    bytes
}
//@ end

impl BigInt {
//@ extract src/bigint.rs :: impl BigInt :: fn from_signed_bytes_be tysub=convert~::~from_signed_bytes_be=>from_signed_bytes_be props=C09,C04 label=BigInt_from_signed_bytes_be
    pub fn from_signed_bytes_be(digits: &[u8]) -> /*+*/(r: /*-*/BigInt/*+*/)/*-*/
//+{
        ensures r.wfi(), r.iv() == sval8(rev8(digits@))
//+}
    {
        from_signed_bytes_be(digits)
    }
//@ end
//@ extract src/bigint.rs :: impl BigInt :: fn from_signed_bytes_le tysub=convert~::~from_signed_bytes_le=>from_signed_bytes_le props=C09,C04 label=BigInt_from_signed_bytes_le
    pub fn from_signed_bytes_le(digits: &[u8]) -> /*+*/(r: /*-*/BigInt/*+*/)/*-*/
//+{
        ensures r.wfi(), r.iv() == sval8(digits@)
//+}
    {
        from_signed_bytes_le(digits)
    }
//@ end
//@ extract src/bigint.rs :: impl BigInt :: fn to_signed_bytes_be tysub=convert~::~to_signed_bytes_be=>to_signed_bytes_be props=C09 label=BigInt_to_signed_bytes_be
    pub fn to_signed_bytes_be(&self) -> /*+*/(res: /*-*/Vec<u8>/*+*/)/*-*/
//+{
        requires self.wfi()
        ensures res@.len() >= 1, sval8(rev8(res@)) == self.iv(), res@.len() == 1 || !fits8(self.iv(), (res@.len() - 1) as nat)
//+}
    {
        to_signed_bytes_be(self)
    }
//@ end
//@ extract src/bigint.rs :: impl BigInt :: fn to_signed_bytes_le tysub=convert~::~to_signed_bytes_le=>to_signed_bytes_le props=C09 label=BigInt_to_signed_bytes_le
    pub fn to_signed_bytes_le(&self) -> /*+*/(res: /*-*/Vec<u8>/*+*/)/*-*/
//+{
        requires self.wfi()
        ensures res@.len() >= 1, sval8(res@) == self.iv(), res@.len() == 1 || !fits8(self.iv(), (res@.len() - 1) as nat)
//+}
    {
        to_signed_bytes_le(self)
    }
//@ end

//@ extract src/bigint.rs :: impl BigInt :: fn from_bytes_be props=C09,C04 label=BigInt_from_bytes_be
    pub fn from_bytes_be(sign: Sign, bytes: &[u8]) -> /*+*/(r: /*-*/BigInt/*+*/)/*-*/
//+{
        ensures r.wfi(), r.iv() == sgn(sign) * (valb(rev8(bytes@), 8, bytes@.len()) as int)
//+}
    {
        BigInt::from_biguint(sign, BigUint::from_bytes_be(bytes))
    }
//@ end
//@ extract src/bigint.rs :: impl BigInt :: fn from_bytes_le props=C09,C04 label=BigInt_from_bytes_le
    pub fn from_bytes_le(sign: Sign, bytes: &[u8]) -> /*+*/(r: /*-*/BigInt/*+*/)/*-*/
//+{
        ensures r.wfi(), r.iv() == sgn(sign) * (valb(bytes@, 8, bytes@.len()) as int)
//+}
    {
        BigInt::from_biguint(sign, BigUint::from_bytes_le(bytes))
    }
//@ end
//@ extract src/bigint.rs :: impl BigInt :: fn to_bytes_be props=C09 label=BigInt_to_bytes_be
    pub fn to_bytes_be(&self) -> /*+*/(r: /*-*/(Sign, Vec<u8>)/*+*/)/*-*/
//+{
        requires self.wfi()
        ensures r.0 == self.sg(), r.1@.len() >= 1, sgn(r.0) * (valb(rev8(r.1@), 8, r.1@.len()) as int) == self.iv(),
            self.iv() == 0 ==> r.1@ =~= seq![0u8],
            self.iv() != 0 ==> r.1@[0] != 0,
//+}
    {
        (self.sign, self.data.to_bytes_be())
    }
//@ end
//@ extract src/bigint.rs :: impl BigInt :: fn to_bytes_le props=C09 label=BigInt_to_bytes_le
    pub fn to_bytes_le(&self) -> /*+*/(r: /*-*/(Sign, Vec<u8>)/*+*/)/*-*/
//+{
        requires self.wfi()
        ensures r.0 == self.sg(), r.1@.len() >= 1, sgn(r.0) * (valb(r.1@, 8, r.1@.len()) as int) == self.iv(),
            self.iv() == 0 ==> r.1@ =~= seq![0u8],
            self.iv() != 0 ==> r.1@[r.1@.len() - 1] != 0,
//+}
    {
        (self.sign, self.data.to_bytes_le())
    }
//@ end

    // contract-only re-homing of `impl num_traits::FromBytes / ToBytes for BigInt` (external traits): the signed two's-complement forms
//@ extract src/bigint.rs :: impl num_traits::FromBytes for BigInt :: fn from_be_bytes tysub=&Self::Bytes=>&[u8] props=C09,C04 label=BigInt_from_be_bytes
    fn from_be_bytes(bytes: &[u8]) -> /*+*/(r: /*-*/Self/*+*/)/*-*/
//+{
        ensures r.wfi(), r.iv() == sval8(rev8(bytes@))
//+}
    {
        Self::from_signed_bytes_be(bytes)
    }
//@ end
//@ extract src/bigint.rs :: impl num_traits::FromBytes for BigInt :: fn from_le_bytes tysub=&Self::Bytes=>&[u8] props=C09,C04 label=BigInt_from_le_bytes
    fn from_le_bytes(bytes: &[u8]) -> /*+*/(r: /*-*/Self/*+*/)/*-*/
//+{
        ensures r.wfi(), r.iv() == sval8(bytes@)
//+}
    {
        Self::from_signed_bytes_le(bytes)
    }
//@ end
//@ extract src/bigint.rs :: impl num_traits::ToBytes for BigInt :: fn to_be_bytes tysub=Self::Bytes=>Vec<u8> props=C09 label=BigInt_to_be_bytes
    fn to_be_bytes(&self) -> /*+*/(res: /*-*/Vec<u8>/*+*/)/*-*/
//+{
        requires self.wfi()
        ensures res@.len() >= 1, sval8(rev8(res@)) == self.iv(), res@.len() == 1 || !fits8(self.iv(), (res@.len() - 1) as nat)
//+}
    {
        self.to_signed_bytes_be()
    }
//@ end
//@ extract src/bigint.rs :: impl num_traits::ToBytes for BigInt :: fn to_le_bytes tysub=Self::Bytes=>Vec<u8> props=C09 label=BigInt_to_le_bytes
    fn to_le_bytes(&self) -> /*+*/(res: /*-*/Vec<u8>/*+*/)/*-*/
//+{
        requires self.wfi()
        ensures res@.len() >= 1, sval8(res@) == self.iv(), res@.len() == 1 || !fits8(self.iv(), (res@.len() - 1) as nat)
//+}
    {
        self.to_signed_bytes_le()
    }
//@ end
}

} // mod u
} // verus!
fn main() {}
