//@ unit u_addsub : BigUint addition and subtraction on top of the digit kernels (src/biguint/addition.rs, subtraction.rs)
#![feature(allocator_api)]
use vstd::prelude::*;
use vstd::std_specs::iter::IteratorSpec;
use vstd::std_specs::ops::*;
use core::ops::{Add, AddAssign, Sub, SubAssign};
verus! {
//@ include prelude/core.rs
//@ include prelude/std_specs.rs
//@ include prelude/panic.rs
pub mod u {
use super::*;

//@ extract src/biguint.rs :: struct BigUint
pub struct BigUint {
    data: Vec<BigDigit>,
}
//@ end

//@ include prelude/biguint_view.rs

//@ stub k_add/__add2
//@ stub k_sub/sub2
//@ stub k_sub/__sub2rev
//@ stub k_sub/sub2rev

impl BigUint {
//@ stub u_core/normalize
//@ stub u_core/normalized
}

//@ include prelude/biguint_addsub_spec.rs

impl AddAssign<&BigUint> for BigUint {
//@ extract src/biguint/addition.rs :: impl AddAssign<&BigUint> for BigUint :: fn add_assign rules=R0,R7 props=C01,C04,C14
    fn add_assign(&mut self, other: &BigUint)
//+{
        ensures final(self).wf(), final(self).v() == old(self).v() + other.v()
//+}
    {
//+{
        let ghost s0 = self.data@;
        let ghost o = other.data@;
//+}
        let self_len = self.data.len();
        let carry = if self_len < other.data.len() {
//+{
            let ghost n = self_len as nat;
            let ghost m = o.len();
            let ghost olo = o.subrange(0, n as int);
            proof { assert(s0.subrange(0, n as int) =~= s0); }
//+}
            let lo_carry = __add2(&mut self.data.as_mut_slice()[..], &other.data[..self_len]);
//+{
            let ghost d1 = self.data@;
//+}
            self.data.extend_from_slice(&other.data[self_len..]);
//+{
            let ghost d2 = self.data@;
            let ghost ohi = o.subrange(n as int, m as int);
            proof {
                assert(d2 =~= d1 + ohi);
                assert(d2.subrange(n as int, m as int) =~= ohi);
                assert([lo_carry]@ =~= seq![lo_carry]);
                lemma_val_single(lo_carry);
            }
//+}
            /*+*/let c2 = /*-*/__add2(&mut self.data.as_mut_slice()[self_len..], &[lo_carry])/*+*/;
            proof {
                let d3 = self.data@;
                let hi3 = d3.subrange(n as int, m as int);
                assert(d3 =~= d1 + hi3);
                assert(o =~= olo + ohi);
                lemma_val_concat(d1, hi3);
                lemma_val_concat(olo, ohi);
                lemma_pw_add(n, (m - n) as nat);
                lemma_addassign_recompose(val(s0), val(olo), val(ohi), val(d1), val(hi3), pw(n), pw((m - n) as nat), lo_carry as nat, c2 as nat);
                // top digit
                if c2 == 0 {
                    lemma_wf_sub_hi(o, n);
                    lemma_wf_after_add(hi3, ohi, lo_carry as nat);
                    assert(d3[d3.len() - 1] == hi3[hi3.len() - 1]);
                }
            }
            c2/*-*/
        } else {
//+{
            proof {
                assert(s0.subrange(0, s0.len() as int) =~= s0);
                assert(o.subrange(0, o.len() as int) =~= o);
            }
//+}
            /*+*/let c2 = /*-*/__add2(&mut self.data.as_mut_slice()[..], &other.data[..])/*+*/;
            proof {
                assert(other.data@.subrange(0, o.len() as int) =~= o);
                if c2 == 0 && s0.len() > 0 {
                    lemma_wf_after_add(self.data@, s0, val(o));
                }
            }
            c2/*-*/
        };
//+{
        let ghost d3 = self.data@;
        proof { lemma_val_push(d3, carry); }
//+}
        if carry != 0 {
            self.data.push(carry);
        }
//+{
        proof {
            if carry == 0 { assert(pw(d3.len()) * 0 == 0) by (nonlinear_arith); }
        }
//+}
    }
//@ end
}

impl Add<&BigUint> for BigUint {
    type Output = BigUint;
//@ extract src/biguint/addition.rs :: impl Add<&BigUint> for BigUint :: fn add rules=R0,R5 label=add_val_ref props=C01,C04
    fn add(self, other: &BigUint) -> /*+*/(r: /*-*/BigUint/*+*/)/*-*/
//+{
        ensures r.wf(), r.v() == self.v() + other.v()
//+}
    {
        let mut self__ = self;
        self__ += other;
        self__
    }
//@ end
}

impl SubAssign<&BigUint> for BigUint {
//@ extract src/biguint/subtraction.rs :: impl SubAssign<&BigUint> for BigUint :: fn sub_assign rules=R0,R7 props=C01,C04,C14
    fn sub_assign(&mut self, other: &BigUint)
//+{
        ensures final(self).wf(), mp() ==> old(self).v() >= other.v(), final(self).v() + other.v() == old(self).v()
//+}
    {
//+{
        proof {
            assert(self.data@.subrange(0, self.data@.len() as int) =~= self.data@);
            assert(other.data@.subrange(0, other.data@.len() as int) =~= other.data@);
        }
//+}
        sub2(&mut self.data.as_mut_slice()[..], &other.data[..]);
        self.normalize();
    }
//@ end
}

impl Sub<&BigUint> for BigUint {
    type Output = BigUint;
//@ extract src/biguint/subtraction.rs :: impl Sub<&BigUint> for BigUint :: fn sub rules=R0,R5 label=sub_val_ref props=C01,C04,C14
    fn sub(self, other: &BigUint) -> /*+*/(r: /*-*/BigUint/*+*/)/*-*/
//+{
        ensures r.wf(), mp() ==> self.v() >= other.v(), r.v() + other.v() == self.v()
//+}
    {
        let mut self__ = self;
        self__ -= other;
        self__
    }
//@ end
}

impl Sub<BigUint> for &BigUint {
    type Output = BigUint;
//@ extract src/biguint/subtraction.rs :: impl Sub<BigUint> for &BigUint :: fn sub rules=R0,R7o label=sub_ref_val props=C01,C04,C14
    fn sub(self, mut other: BigUint) -> /*+*/(r: /*-*/BigUint/*+*/)/*-*/
//+{
        ensures r.wf(), mp() ==> self.v() >= other.v(), r.v() + other.v() == self.v()
//+}
    {
//+{
        let ghost s = self.data@;
        let ghost o = other.data@;
//+}
        let other_len = other.data.len();
        if other_len < self.data.len() {
//+{
            let ghost n = other_len as nat;
            let ghost m = s.len();
            let ghost slo = s.subrange(0, n as int);
            let ghost shi = s.subrange(n as int, m as int);
//+}
            let lo_borrow = __sub2rev(&self.data[..other_len], &mut other.data);
//+{
            let ghost d1 = other.data@;
//+}
            other.data.extend_from_slice(&self.data[other_len..]);
//+{
            proof {
                assert(other.data@ =~= d1 + shi);
                assert(other.data@.subrange(n as int, m as int) =~= shi);
                assert([1u64]@ =~= seq![1u64]);
                lemma_val_single(1u64);
                lemma_wf_sub_hi(s, n);
                lemma_wf_lower(shi);
                assert(s =~= slo + shi);
                lemma_val_concat(slo, shi);
            }
//+}
            if lo_borrow != 0 {
                sub2(&mut other.data.as_mut_slice()[other_len..], &[1])
            }
//+{
            proof {
                let d3 = other.data@;
                let hi3 = d3.subrange(n as int, m as int);
                assert(d3 =~= d1 + hi3);
                lemma_val_concat(d1, hi3);
                if lo_borrow == 0 { assert(hi3 =~= shi); }
                lemma_subrev_recompose(val(slo), val(shi), val(o), val(d1), val(hi3), pw(n), lo_borrow as nat);
                // self has more digits than other and is well-formed: self > other
                lemma_valp_bound(o, o.len());
                lemma_wf_lower(s);
                lemma_pw_mono(n, (m - 1) as nat);
            }
//+}
        } else {
//+{
            proof {
                assert(self.data@.subrange(0, s.len() as int) =~= s);
                assert(other.data@.subrange(0, o.len() as int) =~= o);
            }
//+}
            sub2rev(&self.data[..], &mut other.data.as_mut_slice()[..]);
        }
        other.normalized()
    }
//@ end
}

} // mod u
} // verus!
fn main() {}
