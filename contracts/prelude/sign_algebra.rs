// sgn(.) in {-1,0,1}: the products that occur in the sign/magnitude dispatch are linear once the sign is fixed
pub proof fn lemma_sign_algebra(s: Sign, o: Sign, a: nat, b: nat)
    ensures
        sgn(s) * ((a + b) as int) == sgn(s) * (a as int) + sgn(s) * (b as int),
        sgn(o) * ((a + b) as int) == sgn(o) * (a as int) + sgn(o) * (b as int),
        b >= a ==> sgn(s) * ((b - a) as int) == sgn(s) * (b as int) - sgn(s) * (a as int),
        b >= a ==> sgn(o) * ((b - a) as int) == sgn(o) * (b as int) - sgn(o) * (a as int),
        a >= b ==> sgn(s) * ((a - b) as int) == sgn(s) * (a as int) - sgn(s) * (b as int),
        a >= b ==> sgn(o) * ((a - b) as int) == sgn(o) * (a as int) - sgn(o) * (b as int),
        (-sgn(s)) * ((a + b) as int) == -(sgn(s) * (a as int)) - sgn(s) * (b as int),
        b >= a ==> (-sgn(s)) * ((b - a) as int) == sgn(s) * (a as int) - sgn(s) * (b as int),
        sgn(s) * 0 == 0, sgn(o) * 0 == 0,
        sgn(s) * (a as int) == (match s { Sign::Minus => -(a as int), Sign::NoSign => 0, Sign::Plus => a as int }),
        sgn(o) * (b as int) == (match o { Sign::Minus => -(b as int), Sign::NoSign => 0, Sign::Plus => b as int }),
        sgn(s) * (b as int) == (match s { Sign::Minus => -(b as int), Sign::NoSign => 0, Sign::Plus => b as int }),
        sgn(o) * (a as int) == (match o { Sign::Minus => -(a as int), Sign::NoSign => 0, Sign::Plus => a as int }),
{
    lemma_sgn_mul(s, a); lemma_sgn_mul(s, b); lemma_sgn_mul(o, a); lemma_sgn_mul(o, b);
    lemma_sgn_mul(s, a + b); lemma_sgn_mul(o, a + b);
    if b >= a { lemma_sgn_mul(s, (b - a) as nat); lemma_sgn_mul(o, (b - a) as nat); }
    if a >= b { lemma_sgn_mul(s, (a - b) as nat); lemma_sgn_mul(o, (a - b) as nat); }
    lemma_sgn_mul(s, 0); lemma_sgn_mul(o, 0);
    let x = (a + b) as int;
    assert((-1int) * x == -x && 0int * x == 0 && 1int * x == x) by (nonlinear_arith);
    if b >= a {
        let y = (b - a) as int;
        assert((-1int) * y == -y && 0int * y == 0 && 1int * y == y) by (nonlinear_arith);
    }
}
