// Integer Newton iteration for floor roots (C11): lower bound (AM-GM via the tangent inequality) and strict descent above the root.
pub open spec fn npw(b: nat, e: nat) -> int { vstd::arithmetic::power::pow(b as int, e) }

/// r is the floor n-th root of x:  r^n <= x < (r+1)^n
pub open spec fn is_root(x: nat, n: nat, r: nat) -> bool { vstd::arithmetic::power::pow(r as int, n) <= x < vstd::arithmetic::power::pow(r as int + 1, n) }

/// one Newton step for the n-th root of a at s >= 1 (n >= 1)
pub open spec fn newton(a: nat, n: nat, s: nat) -> nat { (((n - 1) * s + a / (npw(s, (n - 1) as nat) as nat)) / n as int) as nat }

pub proof fn lemma_npw(b: nat, e: nat)
    ensures npw(b, e + 1) == (b as int) * npw(b, e), npw(b, 0) == 1, npw(b, 1) == b as int, npw(b, e) >= 0, b >= 1 ==> npw(b, e) >= 1
{
    vstd::arithmetic::power::lemma_pow_adds(b as int, 1, e);
    vstd::arithmetic::power::lemma_pow1(b as int);
    vstd::arithmetic::power::lemma_pow0(b as int);
    if b >= 1 { vstd::arithmetic::power::lemma_pow_positive(b as int, e); }
    else if e == 0 { } else { vstd::arithmetic::power::lemma0_pow(e); }
}

/// base monotonicity: x <= y ==> x^n <= y^n
pub proof fn lemma_npw_mono(x: nat, y: nat, n: nat)
    requires x <= y
    ensures npw(x, n) <= npw(y, n)
    decreases n
{
    lemma_npw(x, 0); lemma_npw(y, 0);
    if n > 0 {
        lemma_npw_mono(x, y, (n - 1) as nat);
        lemma_npw(x, (n - 1) as nat); lemma_npw(y, (n - 1) as nat);
        let px = npw(x, (n - 1) as nat); let py = npw(y, (n - 1) as nat);
        assert((x as int) * px <= (y as int) * py) by (nonlinear_arith) requires x <= y, 0 <= px <= py;
    }
}

/// tangent (Bernoulli) inequality: r^n - s^n >= n * s^(n-1) * (r - s) for naturals r, s and n >= 1
pub proof fn lemma_pow_tangent(r: nat, s: nat, n: nat)
    requires n >= 1
    ensures npw(r, n) - npw(s, n) >= (n as int) * npw(s, (n - 1) as nat) * ((r as int) - (s as int))
    decreases n
{
    lemma_npw(r, 0); lemma_npw(s, 0);
    if n == 1 {
        assert((1int) * 1 * ((r as int) - (s as int)) == (r as int) - (s as int)) by (nonlinear_arith);
    } else {
        let m = (n - 1) as nat;
        lemma_pow_tangent(r, s, m);
        lemma_npw(r, m); lemma_npw(s, m); lemma_npw(s, (m - 1) as nat);
        let a = npw(r, m); let b = npw(s, m); let c = npw(s, (m - 1) as nat);
        let ri = r as int; let si = s as int; let mi = m as int;
        // IH: a - b >= m * c * (r - s); b == s * c
        assert(ri * (a - b) >= ri * (mi * c * (ri - si))) by (nonlinear_arith) requires a - b >= mi * c * (ri - si), ri >= 0;
        assert(ri * a - si * b == ri * (a - b) + b * (ri - si)) by (nonlinear_arith);
        assert(ri * (mi * c * (ri - si)) + b * (ri - si) - (mi + 1) * b * (ri - si) == mi * c * ((ri - si) * (ri - si))) by (nonlinear_arith) requires b == si * c;
        assert(mi * c * ((ri - si) * (ri - si)) >= 0) by (nonlinear_arith) requires mi >= 0, c >= 0;
        assert((n as int) * b * (ri - si) == (mi + 1) * b * (ri - si));
    }
}

pub proof fn lemma_div_lower(a: nat, c: nat, k: int)
    requires c > 0, a >= k * c
    ensures (a / c) as int >= k
{
    vstd::arithmetic::div_mod::lemma_fundamental_div_mod(a as int, c as int);
    vstd::arithmetic::div_mod::lemma_mod_bound(a as int, c as int);
    let q = (a / c) as int;
    assert(k * (c as int) == (c as int) * k) by (nonlinear_arith);
    if q < k {
        assert((c as int) * q + (c as int) <= (c as int) * k) by (nonlinear_arith) requires q + 1 <= k, c > 0;
        assert(false);
    }
}

pub proof fn lemma_div_upper(a: nat, c: nat, s: int)
    requires c > 0, a < s * c
    ensures ((a / c) as int) < s
{
    vstd::arithmetic::div_mod::lemma_fundamental_div_mod(a as int, c as int);
    vstd::arithmetic::div_mod::lemma_mod_bound(a as int, c as int);
    let q = (a / c) as int;
    assert(s * (c as int) == (c as int) * s) by (nonlinear_arith);
    if q >= s {
        assert((c as int) * q >= (c as int) * s) by (nonlinear_arith) requires q >= s, c > 0;
        assert(false);
    }
}

/// a Newton step from any s >= 1 never falls below the floor root
pub proof fn lemma_newton_lower(a: nat, n: nat, r: nat, s: nat)
    requires n >= 1, s >= 1, npw(r, n) <= a
    ensures newton(a, n, s) >= r
{
    let m = (n - 1) as nat;
    lemma_npw(s, m);
    let c = npw(s, m) as nat;
    lemma_pow_tangent(r, s, n);
    lemma_npw(s, m);
    if n >= 2 { lemma_npw(s, (m - 1) as nat); }
    // s^n == s * c
    assert(npw(s, n) == (s as int) * (c as int)) by { lemma_npw(s, m); }
    let k = (n as int) * (r as int) - (m as int) * (s as int);
    assert((a as int) >= k * (c as int)) by (nonlinear_arith)
        requires (a as int) >= npw(r, n), npw(r, n) - (s as int) * (c as int) >= (n as int) * (c as int) * ((r as int) - (s as int)), m as int == n as int - 1,
            k == (n as int) * (r as int) - (m as int) * (s as int);
    lemma_div_lower(a, c, k);
    let x = (m * s + a / c) as nat;
    assert(x as int >= (n as int) * (r as int));
    assert(x >= r * n) by (nonlinear_arith) requires x as int >= (n as int) * (r as int);
    lemma_div_lower(x, n, r as int);
}

/// above the floor root a Newton step strictly decreases
pub proof fn lemma_newton_decr(a: nat, n: nat, r: nat, s: nat)
    requires n >= 1, s >= r + 1, a < npw(r + 1, n)
    ensures newton(a, n, s) < s
{
    let m = (n - 1) as nat;
    lemma_npw(s, m);
    let c = npw(s, m) as nat;
    lemma_npw_mono(r + 1, s, n);
    assert(npw(s, n) == (s as int) * (c as int));
    lemma_div_upper(a, c, s as int);
    let x = (m * s + a / c) as nat;
    assert((m * s + s) as int == (s as int) * (n as int)) by (nonlinear_arith) requires m + 1 == n;
    assert((x as int) < (s as int) * (n as int));
    lemma_div_upper(x, n, s as int);
}

/// largest t' <= t with t'^n <= a (linear search, spec only)
pub open spec fn rsearch(a: nat, n: nat, t: nat) -> nat
    decreases t
{
    if t == 0 { 0 } else if npw(t, n) <= a { t } else { rsearch(a, n, (t - 1) as nat) }
}

pub proof fn lemma_rsearch(a: nat, n: nat, t: nat)
    requires n >= 1
    ensures rsearch(a, n, t) <= t, npw(rsearch(a, n, t), n) <= a, forall|u: nat| rsearch(a, n, t) < u <= t ==> npw(u, n) > a
    decreases t
{
    if t == 0 {
        vstd::arithmetic::power::lemma0_pow(n);
    } else if npw(t, n) <= a {
    } else {
        lemma_rsearch(a, n, (t - 1) as nat);
    }
}

/// every natural has a floor n-th root (n >= 1)
pub proof fn lemma_root_exists(a: nat, n: nat)
    requires n >= 1
    ensures exists|r: nat| is_root(a, n, r)
{
    let t = a + 1;
    lemma_rsearch(a, n, t);
    let r = rsearch(a, n, t);
    // (a+1)^n >= a+1 > a
    lemma_npw(t, (n - 1) as nat);
    assert(npw(t, n) >= t as int) by (nonlinear_arith) requires npw(t, n) == (t as int) * npw(t, (n - 1) as nat), npw(t, (n - 1) as nat) >= 1, t >= 1;
    assert(r < t);
    assert(npw(r + 1, n) > a);
    assert(is_root(a, n, r));
}

/// size of the root: for 1 <= a < 2^bits and n * mb >= bits, 1 <= r < 2^mb
pub proof fn lemma_root_bounds(a: nat, n: nat, r: nat, bits: nat, mb: nat)
    requires n >= 1, is_root(a, n, r), a >= 1, a < vstd::arithmetic::power2::pow2(bits), n * mb >= bits
    ensures r >= 1, r < vstd::arithmetic::power2::pow2(mb)
{
    if r == 0 {
        vstd::arithmetic::power::lemma1_pow(n);
    }
    let p = vstd::arithmetic::power2::pow2(mb);
    if r >= p {
        lemma_npw_mono(p, r, n);
        vstd::arithmetic::power2::lemma_pow2(mb);
        vstd::arithmetic::power::lemma_pow_multiplies(2, mb, n);
        vstd::arithmetic::power2::lemma_pow2(mb * n);
        assert(mb * n == n * mb) by (nonlinear_arith);
        if bits < n * mb { vstd::arithmetic::power2::lemma_pow2_strictly_increases(bits, n * mb); }
        assert(false);
    }
}

/// quotient from the division predicate
pub proof fn lemma_udiv_is_div(a: nat, b: nat, q: nat, m: nat)
    requires a == q * b + m, m < b
    ensures q == a / b
{
    vstd::arithmetic::div_mod::lemma_fundamental_div_mod_converse(a as int, b as int, q as int, m as int);
}
