//@ unit k_add : digit-slice addition kernels (src/biguint/addition.rs)
#![feature(allocator_api)]
use vstd::prelude::*;
use vstd::std_specs::iter::IteratorSpec;
verus! {
//@ include prelude/core.rs
//@ include prelude/chains.rs
//@ include prelude/std_specs.rs
pub mod u {
use super::*;

//@ assume adc : intrinsic _addcarry_u64 (hardware add-with-carry); contract from the Intel intrinsic definition
#[verifier::external_body]
fn adc(carry: u8, a: u64, b: u64, out: &mut u64) -> (r: u8)
    requires carry <= 1
    ensures r <= 1, (*final(out) as nat) + B() * (r as nat) == (a as nat) + (b as nat) + (carry as nat)
{ unimplemented!() }

//@ assume schoolbook_add_assign_x86_64 : asm block; this slice-level contract is discharged by engine A (tools/asmvc.py) from the real template
#[verifier::external_body]
fn schoolbook_add_assign_x86_64(lhs: &mut [u64], rhs: &[u64], size: usize) -> (r: (bool, usize))
    requires size <= old(lhs).len(), size <= rhs.len()
    ensures
        r.1 == 5 * (size / 5),
        final(lhs).len() == old(lhs).len(),
        forall|j: int| r.1 <= j < old(lhs).len() ==> final(lhs)[j] == old(lhs)[j],
        forall|j: int| 0 <= j < r.1 ==> final(lhs)[j] == sumdigit(old(lhs)@, rhs@, j),
        r.0 == (carry_at(old(lhs)@, rhs@, r.1 as nat) == 1),
{ unimplemented!() }

//@ extract src/biguint/addition.rs :: fn __add2 rules=R0,R1,R10 props=C01,C14,C15
pub(super) fn __add2(a: &mut [BigDigit], b: &[BigDigit]) -> /*+*/(r: /*-*/BigDigit/*+*/)/*-*/
//+{
    requires old(a).len() >= b.len()
    ensures
        final(a).len() == old(a).len(),
        r <= 1,
        val(final(a)@) + pw(old(a).len() as nat) * (r as nat) == val(old(a)@) + val(b@),
//+}
{
//+{
    let ghost oa = old(a)@;
    let ghost fa = final(a)@;
    let ghost bs = b@;
    let ghost n = b.len() as nat;
//+}
    debug_assert!(a.len() >= b.len());

    let (a_lo, a_hi) = a.split_at_mut(b.len());
//+{
    let ghost olo = a_lo@;
    let ghost ohi = a_hi@;
    let ghost flo = final(a_lo)@;
    let ghost h = ohi.len();
    proof {
        assert(olo =~= oa.subrange(0, n as int));
        assert(ohi =~= oa.subrange(n as int, oa.len() as int));
        assert(oa =~= olo + ohi);
        lemma_val_concat(olo, ohi);
    }
//+}

    // On x86 machine, perform most of the addition via inline assembly
    let (c, done) = schoolbook_add_assign_x86_64(a_lo, b, b.len());
//+{
    let ghost mlo = a_lo@;
    proof {
        lemma_chain_add(olo, bs, mlo, done as nat);
        lemma_carry_le1(olo, bs, done as nat);
        lemma_valp_ext_imp(flo, mlo, done as nat);
    }
//+}

    let mut carry = c as u8;

    for (a, b) in /*+*/it: /*-*/a_lo[done..].iter_mut().zip(b[done..].iter())
//+{
        invariant
            it.seq().len() == n - done, done <= n,
            flo.len() == n, mlo.len() == n, olo.len() == n, bs.len() == n,
            carry <= 1,
            forall|j: int| 0 <= j < done ==> flo[j] == mlo[j],
            forall|i: int| 0 <= i < it.seq().len() ==> *(#[trigger] it.seq()[i]).1 == bs[done + i],
            forall|i: int| 0 <= i < it.seq().len() ==> *((#[trigger] it.seq()[i]).0) == olo[done + i],
            forall|i: int| 0 <= i < it.seq().len() ==> *final((#[trigger] it.seq()[i]).0) == flo[done + i],
            valp(flo, (done + it.index@) as nat) + pw((done + it.index@) as nat) * (carry as nat)
                == valp(olo, (done + it.index@) as nat) + valp(bs, (done + it.index@) as nat),
//+}
    {
//+{
        let ghost k = (done + it.index@) as nat;
        let ghost c0 = carry;
//+}
        carry = adc(carry, *a, *b, a);
//+{
        proof {
            assert(flo[k as int] == *a);
            lemma_add_step(flo, olo, bs, k, c0 as nat, carry as nat);
        }
//+}
    }
//+{
    proof {
        assert(valp(flo, n) + pw(n) * (carry as nat) == valp(olo, n) + valp(bs, n));
    }
    let ghost c_mid = carry;
//+}

    if carry != 0 {
        { let mut i__ = 0 ; while i__ < a_hi.len()
//+{
            invariant_except_break
                i__ < h ==> carry == 1,
            invariant
                a_hi.len() == h, ohi.len() == h, i__ <= h, carry <= 1,
                forall|j: int| i__ <= j < h ==> a_hi[j] == ohi[j],
                valp(a_hi@, i__ as nat) + pw(i__ as nat) * (carry as nat) == valp(ohi, i__ as nat) + 1,
            ensures
                a_hi.len() == h, i__ <= h, carry <= 1,
                forall|j: int| i__ <= j < h ==> a_hi[j] == ohi[j],
                valp(a_hi@, i__ as nat) + pw(i__ as nat) * (carry as nat) == valp(ohi, i__ as nat) + 1,
                i__ < h ==> carry == 0,
            decreases h - i__
//+}
        {
//+{
            let ghost prev = a_hi@;
//+}
            let a = &mut a_hi[i__] ; i__ += 1 ;
//+{
            let ghost k = (i__ - 1) as nat;
            let ghost c0 = carry;
//+}
            carry = adc(carry, *a, 0, a);
//+{
            proof {
                lemma_valp_ext(prev, a_hi@, k);
                lemma_add_step1(a_hi@, ohi, k, c0 as nat, carry as nat);
            }
//+}
            if carry == 0 {
                break;
            }
        }
//+{
        proof {
            // digits above i__ are untouched: value of the whole high part
            lemma_tail_same(a_hi@, ohi, i__ as nat, carry as nat);
        }
//+}
        }
    }
//+{
    proof {
        let fhi = a_hi@;
        assert(fa =~= flo + fhi);
        if c_mid == 0 { assert(fhi =~= ohi); }
        lemma_add2_final(oa, olo, ohi, fa, flo, fhi, bs, c_mid as nat, carry as nat);
    }
//+}

    carry as BigDigit
}
//@ end

} // mod u
} // verus!
fn main() {}
