//@ unit i_bits : BigInt &=, |=, ^= : every bit of the result is the operation on the operands' infinite two's-complement expansions; representation invariant after every sign case (src/bigint/bits.rs)
#![feature(allocator_api)]
use vstd::prelude::*;
use vstd::std_specs::iter::IteratorSpec;
use vstd::std_specs::ops::*;
use core::ops::{BitAndAssign, BitOrAssign, BitXorAssign, BitAnd, BitOr, BitXor, Neg, Not, AddAssign, SubAssign, Add, Sub};
use core::cmp::Ordering;
use vstd::arithmetic::power2::pow2;
verus! {
//@ include prelude/core.rs
//@ include prelude/std_specs.rs
//@ include prelude/panic.rs
//@ include prelude/bitdigits.rs
//@ include prelude/val32.rs
//@ include prelude/bitval.rs
//@ include prelude/twos.rs
//@ extract src/bigint.rs :: enum Sign attrs=1
#[derive(/*+*/Structural, /*-*/PartialEq, PartialOrd, Eq, Ord, Copy, Clone, Debug, Hash)]
pub enum Sign {
    Minus,
    NoSign,
    Plus,
}
//@ end
pub mod u {
use super::*;
use Sign::*;

//@ extract src/biguint.rs :: struct BigUint
pub struct BigUint {
    data: Vec<BigDigit>,
}
//@ end
//@ include prelude/biguint_view.rs
impl BigUint {
//@ extract src/biguint.rs :: impl BigUint :: const ZERO rules=R9,R13 label=BigUint_ZERO
    exec const ZERO: Self /*+*/ensures Self::ZERO.data@.len() == 0 /*-*/{ BigUint { data: Vec::new() } }
//@ end
//@ stub u_core/is_zero
//@ stub u_core/set_zero
//@ stub u_core/normalize
//@ stub u_core/clone
    // contract-only re-homing of `IntDigits for BigUint` accessors (proved here: one-line bodies)
//@ extract src/biguint.rs :: impl IntDigits for BigUint :: fn digits props=C04
    fn digits(&self) -> /*+*/(r: /*-*/&[BigDigit]/*+*/)/*-*/
//+{
        ensures r@ == self.data@
//+}
    {
        &self.data
    }
//@ end
//@ extract src/biguint.rs :: impl IntDigits for BigUint :: fn digits_mut props=C04
    fn digits_mut(&mut self) -> /*+*/(r: /*-*/&mut Vec<BigDigit>/*+*/)/*-*/
//+{
        ensures *r == old(self).data, final(self).data == *final(r)
//+}
    {
        &mut self.data
    }
//@ end
//@ extract src/biguint.rs :: impl IntDigits for BigUint :: fn len props=C04 label=biguint_len
    fn len(&self) -> /*+*/(r: /*-*/usize/*+*/)/*-*/
//+{
        ensures r == self.data@.len()
//+}
    {
        self.data.len()
    }
//@ end
//@ stub u_bitq/trailing_zeros
//@ stub u_bitq/bit
//@ stub u_core/clone_from
}
impl BitAndAssignSpecImpl<&BigUint> for BigUint {
    open spec fn obeys_bitand_assign_spec() -> bool { false }
    open spec fn bitand_assign_req(&self, rhs: &BigUint) -> bool { true }
    open spec fn bitand_assign_spec(&self, rhs: &BigUint) -> &BigUint { arbitrary() }
}
impl BitOrAssignSpecImpl<&BigUint> for BigUint {
    open spec fn obeys_bitor_assign_spec() -> bool { false }
    open spec fn bitor_assign_req(&self, rhs: &BigUint) -> bool { self.wf() && rhs.wf() }
    open spec fn bitor_assign_spec(&self, rhs: &BigUint) -> &BigUint { arbitrary() }
}
impl BitXorAssignSpecImpl<&BigUint> for BigUint {
    open spec fn obeys_bitxor_assign_spec() -> bool { false }
    open spec fn bitxor_assign_req(&self, rhs: &BigUint) -> bool { true }
    open spec fn bitxor_assign_spec(&self, rhs: &BigUint) -> &BigUint { arbitrary() }
}
impl BitAndAssign<&BigUint> for BigUint {
//@ stub u_bits/bitand_assign
}
impl BitOrAssign<&BigUint> for BigUint {
//@ stub u_bits/bitor_assign
}
impl BitXorAssign<&BigUint> for BigUint {
//@ stub u_bits/bitxor_assign
}

//@ extract src/bigint.rs :: struct BigInt
pub struct BigInt {
    sign: Sign,
    data: BigUint,
}
//@ end
//@ include prelude/bigint_view.rs

pub mod big_digit {
    use vstd::prelude::*;
    pub type BigDigit = u64;
    pub type DoubleBigDigit = u128;
//@ extract src/lib.rs :: mod big_digit :: const BITS
    pub(crate) const BITS: u8 = BigDigit::BITS as u8;
//@ end
}
pub open spec fn p2(k: nat) -> nat { pow2(k) }
impl AddAssignSpecImpl<u32> for BigUint {
    open spec fn obeys_add_assign_spec() -> bool { false }
    open spec fn add_assign_req(&self, rhs: u32) -> bool { self.wf() }
    open spec fn add_assign_spec(&self, rhs: u32) -> &BigUint { arbitrary() }
}
impl AddAssign<u32> for BigUint {
//@ stub u_scalar/add_assign_u32
}
impl SubAssignSpecImpl<u32> for BigUint {
    open spec fn obeys_sub_assign_spec() -> bool { false }
    open spec fn sub_assign_req(&self, rhs: u32) -> bool { self.wf() && (!mp() ==> self.v() >= rhs as nat) }
    open spec fn sub_assign_spec(&self, rhs: u32) -> &BigUint { arbitrary() }
}
impl SubAssign<u32> for BigUint {
//@ stub u_scalar/sub_assign_u32
}
use self::big_digit::DoubleBigDigit;
// the nine two's-complement digit routines, digit-exact contracts proved in unit k_twos
//@ stub k_twos/bitand_pos_neg
//@ stub k_twos/bitand_neg_pos
//@ stub k_twos/bitand_neg_neg
//@ stub k_twos/bitor_pos_neg
//@ stub k_twos/bitor_neg_pos
//@ stub k_twos/bitor_neg_neg
//@ stub k_twos/bitxor_pos_neg
//@ stub k_twos/bitxor_neg_pos
//@ stub k_twos/bitxor_neg_neg

/// both operands non-negative: the digit-wise contract of the BigUint operators, read bit by bit
pub proof fn lemma_pp(op: int, r: Seq<u64>, a: Seq<u64>, b: Seq<u64>)
    requires 0 <= op <= 2, forall|i: int| 0 <= i ==> #[trigger] dig(r, i) == dop(op, dig(a, i), dig(b, i))
    ensures bits_rel(op, val(r) as int, val(a) as int, val(b) as int)
{
    assert forall|i: nat| dig(r, i as int) == dop(op, #[trigger] sdig(false, a, i), sdig(false, b, i)) by {
        assert(dig(r, i as int) == dop(op, dig(a, i as int), dig(b, i as int)));
    }
    lemma_pos_result(op, r, false, a, false, b);
}

/// the same for an unnamed BigUint temporary
pub proof fn lemma_pp_all(op: int, a: BigUint, b: BigUint)
    requires 0 <= op <= 2
    ensures forall|r: BigUint| (forall|i: int| 0 <= i ==> #[trigger] dig(r.dg(), i) == dop(op, dig(a.dg(), i), dig(b.dg(), i)))
        ==> bits_rel(op, #[trigger] r.v() as int, a.v() as int, b.v() as int)
{
    assert forall|r: BigUint| (forall|i: int| 0 <= i ==> #[trigger] dig(r.dg(), i) == dop(op, dig(a.dg(), i), dig(b.dg(), i)))
        implies bits_rel(op, #[trigger] r.v() as int, a.v() as int, b.v() as int) by {
        lemma_pp(op, r.dg(), a.dg(), b.dg());
    }
}

/// 0 op y and x op 0
pub proof fn lemma_with_zero(op: int, y: int)
    requires 0 <= op <= 2
    ensures bits_rel(0, 0, 0, y), bits_rel(0, 0, y, 0), bits_rel(1, y, 0, y), bits_rel(1, y, y, 0), bits_rel(2, y, 0, y), bits_rel(2, y, y, 0)
{
    assert forall|k: nat| !(#[trigger] ibit(0, k)) by { lemma_ibit_zero(k); }
}

impl BigInt {
//@ stub i_core/set_zero
//@ stub i_core/bigint_normalize
    // contract-only re-homing of `IntDigits for BigInt` accessors and Clone::clone_from
//@ extract src/bigint.rs :: impl IntDigits for BigInt :: fn digits props=C04 label=bigint_digits
    fn digits(&self) -> /*+*/(r: /*-*/&[BigDigit]/*+*/)/*-*/
//+{
        ensures r@ == self.data.dg()
//+}
    {
        self.data.digits()
    }
//@ end
//@ extract src/bigint.rs :: impl IntDigits for BigInt :: fn digits_mut props=C04 label=bigint_digits_mut
    fn digits_mut(&mut self) -> /*+*/(r: /*-*/&mut Vec<BigDigit>/*+*/)/*-*/
//+{
        ensures r@ == old(self).data.dg(), final(self).data.dg() == final(r)@, final(self).sign == old(self).sign
//+}
    {
        self.data.digits_mut()
    }
//@ end
//@ extract src/bigint.rs :: impl Clone for BigInt :: fn clone_from props=C04 label=bigint_clone_from
    fn clone_from(&mut self, other: &Self)
//+{
        ensures final(self).wfi() == other.wfi(), final(self).iv() == other.iv()
//+}
    {
        self.sign = other.sign;
        self.data.clone_from(&other.data);
    }
//@ end
}

impl BitAndAssignSpecImpl<&BigInt> for BigInt {
    open spec fn obeys_bitand_assign_spec() -> bool { false }
    open spec fn bitand_assign_req(&self, rhs: &BigInt) -> bool { self.wfi() && rhs.wfi() }
    open spec fn bitand_assign_spec(&self, rhs: &BigInt) -> &BigInt { arbitrary() }
}
impl BitOrAssignSpecImpl<&BigInt> for BigInt {
    open spec fn obeys_bitor_assign_spec() -> bool { false }
    open spec fn bitor_assign_req(&self, rhs: &BigInt) -> bool { self.wfi() && rhs.wfi() }
    open spec fn bitor_assign_spec(&self, rhs: &BigInt) -> &BigInt { arbitrary() }
}
impl BitXorAssignSpecImpl<&BigInt> for BigInt {
    open spec fn obeys_bitxor_assign_spec() -> bool { false }
    open spec fn bitxor_assign_req(&self, rhs: &BigInt) -> bool { self.wfi() && rhs.wfi() }
    open spec fn bitxor_assign_spec(&self, rhs: &BigInt) -> &BigInt { arbitrary() }
}

impl BitAndAssign<&BigInt> for BigInt {
//@ extract src/bigint/bits.rs :: impl BitAndAssign<&BigInt> for BigInt :: fn bitand_assign props=C04,C07 label=bigint_bitand_assign
    fn bitand_assign(&mut self, other: &BigInt)
//+{
        ensures final(self).wfi(), bits_rel(0, final(self).iv(), old(self).iv(), other.iv())
//+}
    {
//+{
        let ghost a0 = self.data.dg();
        let ghost b = other.data.dg();
        proof {
            lemma_sgn_mul(self.sign, self.data.v()); lemma_sgn_mul(other.sign, other.data.v());
            lemma_with_zero(0, other.iv()); lemma_with_zero(0, self.iv());
        }
//+}
        match (self.sign, other.sign) {
            (NoSign, _) => {}
            (_, NoSign) => self.set_zero(),
            (Plus, Plus) => {
                self.data &= &other.data;
//+{
                proof { lemma_pp(0, self.data.dg(), a0, b); }
//+}
                if self.data.is_zero() {
                    self.sign = NoSign;
                }
//+{
                proof { lemma_sgn_mul(self.sign, self.data.v()); }
//+}
            }
            (Plus, Minus) => {
                bitand_pos_neg(self.digits_mut(), other.digits());
//+{
                proof { lemma_case(0, self.data.dg(), false, a0, true, b, a0.len()); }
//+}
                self.normalize();
            }
            (Minus, Plus) => {
                bitand_neg_pos(self.digits_mut(), other.digits());
//+{
                proof { lemma_case(0, self.data.dg(), true, a0, false, b, b.len()); }
//+}
                self.sign = Plus;
                self.normalize();
            }
            (Minus, Minus) => {
                bitand_neg_neg(self.digits_mut(), other.digits());
//+{
                proof { lemma_case(0, self.data.dg(), true, a0, true, b, if a0.len() >= b.len() { a0.len() } else { b.len() }); }
//+}
                self.normalize();
            }
        }
    }
//@ end
}

impl BitOrAssign<&BigInt> for BigInt {
//@ extract src/bigint/bits.rs :: impl BitOrAssign<&BigInt> for BigInt :: fn bitor_assign props=C04,C07 label=bigint_bitor_assign
    fn bitor_assign(&mut self, other: &BigInt)
//+{
        ensures final(self).wfi(), bits_rel(1, final(self).iv(), old(self).iv(), other.iv())
//+}
    {
//+{
        let ghost a0 = self.data.dg();
        let ghost b = other.data.dg();
        proof {
            if self.data.dg().len() > 0 { lemma_wf_lower(self.data.dg()); }
            lemma_sgn_mul(self.sign, self.data.v()); lemma_sgn_mul(other.sign, other.data.v());
            lemma_with_zero(1, other.iv()); lemma_with_zero(1, self.iv());
        }
//+}
        match (self.sign, other.sign) {
            (_, NoSign) => {}
            (NoSign, _) => self.clone_from(other),
            (Plus, Plus) => /*+*/{ /*-*/self.data |= &other.data/*+*/; proof { lemma_or_nonzero(old(self).data.dg(), other.data.dg(), self.data.dg()); lemma_pp(1, self.data.dg(), a0, b); lemma_sgn_mul(self.sign, self.data.v()); } }/*-*/,
            (Plus, Minus) => {
                bitor_pos_neg(self.digits_mut(), other.digits());
//+{
                proof { lemma_case(1, self.data.dg(), false, a0, true, b, b.len()); }
//+}
                self.sign = Minus;
                self.normalize();
            }
            (Minus, Plus) => {
                bitor_neg_pos(self.digits_mut(), other.digits());
//+{
                proof { lemma_case(1, self.data.dg(), true, a0, false, b, a0.len()); }
//+}
                self.normalize();
            }
            (Minus, Minus) => {
                bitor_neg_neg(self.digits_mut(), other.digits());
//+{
                proof { lemma_case(1, self.data.dg(), true, a0, true, b, if a0.len() <= b.len() { a0.len() } else { b.len() }); }
//+}
                self.normalize();
            }
        }
    }
//@ end
}

impl BitXorAssign<&BigInt> for BigInt {
//@ extract src/bigint/bits.rs :: impl BitXorAssign<&BigInt> for BigInt :: fn bitxor_assign props=C04,C07 label=bigint_bitxor_assign
    fn bitxor_assign(&mut self, other: &BigInt)
//+{
        ensures final(self).wfi(), bits_rel(2, final(self).iv(), old(self).iv(), other.iv())
//+}
    {
//+{
        let ghost a0 = self.data.dg();
        let ghost b = other.data.dg();
        proof {
            lemma_sgn_mul(self.sign, self.data.v()); lemma_sgn_mul(other.sign, other.data.v());
            lemma_with_zero(2, other.iv()); lemma_with_zero(2, self.iv());
        }
//+}
        match (self.sign, other.sign) {
            (_, NoSign) => {}
            (NoSign, _) => self.clone_from(other),
            (Plus, Plus) => {
                self.data ^= &other.data;
//+{
                proof { lemma_pp(2, self.data.dg(), a0, b); }
//+}
                if self.data.is_zero() {
                    self.sign = NoSign;
                }
//+{
                proof { lemma_sgn_mul(self.sign, self.data.v()); }
//+}
            }
            (Plus, Minus) => {
                bitxor_pos_neg(self.digits_mut(), other.digits());
//+{
                proof { lemma_case(2, self.data.dg(), false, a0, true, b, if a0.len() >= b.len() { a0.len() } else { b.len() }); }
//+}
                self.sign = Minus;
                self.normalize();
            }
            (Minus, Plus) => {
                bitxor_neg_pos(self.digits_mut(), other.digits());
//+{
                proof { lemma_case(2, self.data.dg(), true, a0, false, b, if a0.len() >= b.len() { a0.len() } else { b.len() }); }
//+}
                self.normalize();
            }
            (Minus, Minus) => {
                bitxor_neg_neg(self.digits_mut(), other.digits());
//+{
                proof { lemma_case(2, self.data.dg(), true, a0, true, b, if a0.len() >= b.len() { a0.len() } else { b.len() }); }
//+}
                self.sign = Plus;
                self.normalize();
            }
        }
    }
//@ end
}

impl BigInt {
//@ stub i_core/is_negative
//@ extract src/bigint.rs :: impl IntDigits for BigInt :: fn len props=C04 label=bigint_len
    fn len(&self) -> /*+*/(r: /*-*/usize/*+*/)/*-*/
//+{
        ensures r == self.data.dg().len()
//+}
    {
        self.data.len()
    }
//@ end

//@ extract src/bigint.rs :: impl BigInt :: fn bit rules=R0,R0p,R16v props=C07 label=bigint_bit
    pub fn bit(&self, bit: u64) -> /*+*/(r: /*-*/bool/*+*/)/*-*/
//+{
        requires self.wfi()
        ensures r == ibit(self.iv(), bit as nat)
//+}
    {
//+{
        proof {
            lemma_sgn_mul(self.sign, self.data.v());
            axiom_vec_u64_len(&self.data.data);
            let m = self.data.v();
            let n = self.data.dg().len();
            lemma_valp_bound(self.data.dg(), n);
            if self.sign == Minus {
                if bit as nat >= 64 * n { lemma_ibit_high(-(m as int), n, bit as nat); }
            }
        }
//+}
        if self.is_negative() {
            // Let the binary representation of a number be
            //   ... 0  x 1 0 ... 0
            // Then the two's complement is
            //   ... 1 !x 1 0 ... 0
            // where !x is obtained from x by flipping each bit
            if bit >= u64::from(big_digit::BITS) * self.len() as u64 {
                true
            } else {
                let trailing_zeros = self.data.trailing_zeros().unwrap();
//+{
                proof { lemma_neg_bit(self.data.v(), trailing_zeros as nat, bit as nat); }
//+}
                match __u64_cmp(bit, trailing_zeros) {
                    Ordering::Less => false,
                    Ordering::Equal => true,
                    Ordering::Greater => !self.data.bit(bit),
                }
            }
        } else {
            self.data.bit(bit)
        }
    }
//@ end
}

impl NotSpecImpl for BigInt {
    open spec fn obeys_not_spec() -> bool { false }
    open spec fn not_req(self) -> bool { self.wfi() }
    open spec fn not_spec(self) -> BigInt { arbitrary() }
}
impl Not for BigInt {
    type Output = BigInt;
//@ extract src/bigint.rs :: impl Not for BigInt :: fn not rules=R0,R5 props=C07,C04 label=bigint_not
    fn not(self) -> /*+*/(r: /*-*/BigInt/*+*/)/*-*/
//+{
        ensures r.wfi(), r.iv() == -self.iv() - 1, forall|k: nat| #[trigger] ibit(r.iv(), k) == !ibit(self.iv(), k)
//+}
    {
//+{
        proof {
            lemma_sgn_mul(self.sign, self.data.v());
            assert forall|k: nat| #[trigger] ibit(-self.iv() - 1, k) == !ibit(self.iv(), k) by { lemma_compl(self.iv(), k); }
        }
//+}
        let mut self__ = self;
        match self__.sign {
            NoSign | Plus => {
                self__.data += 1u32;
                self__.sign = Minus;
            }
            Minus => {
                self__.data -= 1u32;
                self__.sign = if self__.data.is_zero() { NoSign } else { Plus };
            }
        }
//+{
        proof { lemma_sgn_mul(self__.sign, self__.data.v()); }
//+}
        self__
    }
//@ end
}

impl BitAndSpecImpl<&BigInt> for BigInt {
    open spec fn obeys_bitand_spec() -> bool { false }
    open spec fn bitand_req(self, rhs: &BigInt) -> bool { self.wfi() && rhs.wfi() }
    open spec fn bitand_spec(self, rhs: &BigInt) -> BigInt { arbitrary() }
}
impl BitAnd<&BigInt> for BigInt {
    type Output = BigInt;
//@ extract src/bigint/bits.rs :: impl BitAnd<&BigInt> for BigInt :: fn bitand rules=R0,R5 props=C07,C10 label=bigint_bitand_val_ref
    fn bitand(self, other: &BigInt) -> /*+*/(r: /*-*/BigInt/*+*/)/*-*/
//+{
        ensures r.wfi(), bits_rel(0, r.iv(), self.iv(), other.iv())
//+}
    {
        let mut self__ = self;
        self__ &= other;
        self__
    }
//@ end
}

impl BitOrSpecImpl<&BigInt> for BigInt {
    open spec fn obeys_bitor_spec() -> bool { false }
    open spec fn bitor_req(self, rhs: &BigInt) -> bool { self.wfi() && rhs.wfi() }
    open spec fn bitor_spec(self, rhs: &BigInt) -> BigInt { arbitrary() }
}
impl BitOr<&BigInt> for BigInt {
    type Output = BigInt;
//@ extract src/bigint/bits.rs :: impl BitOr<&BigInt> for BigInt :: fn bitor rules=R0,R5 props=C07,C10 label=bigint_bitor_val_ref
    fn bitor(self, other: &BigInt) -> /*+*/(r: /*-*/BigInt/*+*/)/*-*/
//+{
        ensures r.wfi(), bits_rel(1, r.iv(), self.iv(), other.iv())
//+}
    {
        let mut self__ = self;
        self__ |= other;
        self__
    }
//@ end
}

impl BitXorSpecImpl<&BigInt> for BigInt {
    open spec fn obeys_bitxor_spec() -> bool { false }
    open spec fn bitxor_req(self, rhs: &BigInt) -> bool { self.wfi() && rhs.wfi() }
    open spec fn bitxor_spec(self, rhs: &BigInt) -> BigInt { arbitrary() }
}
impl BitXor<&BigInt> for BigInt {
    type Output = BigInt;
//@ extract src/bigint/bits.rs :: impl BitXor<&BigInt> for BigInt :: fn bitxor rules=R0,R5 props=C07,C10 label=bigint_bitxor_val_ref
    fn bitxor(self, other: &BigInt) -> /*+*/(r: /*-*/BigInt/*+*/)/*-*/
//+{
        ensures r.wfi(), bits_rel(2, r.iv(), self.iv(), other.iv())
//+}
    {
        let mut self__ = self;
        self__ ^= other;
        self__
    }
//@ end
}

impl BitAndSpecImpl<&BigUint> for &BigUint {
    open spec fn obeys_bitand_spec() -> bool { false }
    open spec fn bitand_req(self, rhs: &BigUint) -> bool { true }
    open spec fn bitand_spec(self, rhs: &BigUint) -> BigUint { arbitrary() }
}
impl BitAnd<&BigUint> for &BigUint {
    type Output = BigUint;
//@ stub u_bits/bitand_ref_ref
}
impl BitOrSpecImpl<&BigUint> for &BigUint {
    open spec fn obeys_bitor_spec() -> bool { false }
    open spec fn bitor_req(self, rhs: &BigUint) -> bool { self.wf() && rhs.wf() }
    open spec fn bitor_spec(self, rhs: &BigUint) -> BigUint { arbitrary() }
}
impl BitOr<&BigUint> for &BigUint {
    type Output = BigUint;
    //@ assume BigUint:BitOr<&BigUint>for&BigUint : forward_all_binop_to_val_ref_commutative! forwarder (engine F) to BitOr<&BigUint> for BigUint (proved in u_bits)
    #[verifier::external_body]
    fn bitor(self, other: &BigUint) -> (r: BigUint)
        ensures r.wf(), forall|i: int| 0 <= i ==> dig(r.dg(), i) == dig(self.dg(), i) | dig(other.dg(), i),
    { unimplemented!() }
}
impl AddSpecImpl<u32> for &BigUint {
    open spec fn obeys_add_spec() -> bool { false }
    open spec fn add_req(self, rhs: u32) -> bool { self.wf() }
    open spec fn add_spec(self, rhs: u32) -> BigUint { arbitrary() }
}
impl Add<u32> for &BigUint {
    type Output = BigUint;
    //@ assume BigUint:Add<u32>for&BigUint : forward_all_scalar_binop_to_val_val_commutative! forwarder (engine F) to Add<u32> for BigUint (proved in u_scalar)
    #[verifier::external_body]
    fn add(self, other: u32) -> (r: BigUint) ensures r.wf(), r.v() == self.v() + other as nat { unimplemented!() }
}
impl SubSpecImpl<u32> for &BigUint {
    open spec fn obeys_sub_spec() -> bool { false }
    open spec fn sub_req(self, rhs: u32) -> bool { self.wf() && (!mp() ==> self.v() >= rhs as nat) }
    open spec fn sub_spec(self, rhs: u32) -> BigUint { arbitrary() }
}
impl Sub<u32> for &BigUint {
    type Output = BigUint;
    //@ assume BigUint:Sub<u32>for&BigUint : forward_all_scalar_binop_to_val_val! forwarder (engine F) to Sub<u32> for BigUint (proved in u_scalar)
    #[verifier::external_body]
    fn sub(self, other: u32) -> (r: BigUint) ensures mp() ==> self.v() >= other as nat, r.wf(), r.v() + other as nat == self.v() { unimplemented!() }
}
impl vstd::std_specs::convert::FromSpecImpl<BigUint> for BigInt {
    open spec fn obeys_from_spec() -> bool { false }
    open spec fn from_spec(v: BigUint) -> BigInt { arbitrary() }
}
impl From<BigUint> for BigInt {
//@ stub i_div/from_biguint_trait
}
impl NegSpecImpl for BigInt {
    open spec fn obeys_neg_spec() -> bool { false }
    open spec fn neg_req(self) -> bool { true }
    open spec fn neg_spec(self) -> BigInt { arbitrary() }
}
impl Neg for BigInt {
    type Output = BigInt;
//@ stub i_core/bigint_neg
}
impl BigInt {
//@ extract src/bigint.rs :: impl BigInt :: const ZERO rules=R9,R13
    exec const ZERO: Self /*+*/ensures Self::ZERO.wfi(), Self::ZERO.iv() == 0 /*-*/{ BigInt {
        sign: NoSign,
        data: BigUint::ZERO,
    } }
//@ end
//@ stub i_core/clone
//@ stub i_core/one
}

impl BitAndSpecImpl<&BigInt> for &BigInt {
    open spec fn obeys_bitand_spec() -> bool { false }
    open spec fn bitand_req(self, rhs: &BigInt) -> bool { self.wfi() && rhs.wfi() }
    open spec fn bitand_spec(self, rhs: &BigInt) -> BigInt { arbitrary() }
}
impl BitAnd<&BigInt> for &BigInt {
    type Output = BigInt;
//@ extract src/bigint/bits.rs :: impl BitAnd<&BigInt> for &BigInt :: fn bitand rules=R0,R3da,R3ca props=C07,C10 label=bigint_bitand_ref_ref
    fn bitand(self, other: &BigInt) -> /*+*/(r: /*-*/BigInt/*+*/)/*-*/
//+{
        ensures r.wfi(), bits_rel(0, r.iv(), self.iv(), other.iv())
//+}
    {
//+{
        proof {
            lemma_sgn_mul(self.sign, self.data.v()); lemma_sgn_mul(other.sign, other.data.v());
            lemma_with_zero(0, other.iv()); lemma_with_zero(0, self.iv());
            lemma_sgn_mul(NoSign, 0);
            lemma_bits_rel_comm(0, self.iv(), other.iv());
            lemma_pp_all(0, self.data, other.data);
        }
//+}
        match (self.sign, other.sign) {
            (NoSign, _) | (_, NoSign) => BigInt::ZERO,
            (Plus, Plus) => BigInt::from(BitAnd::bitand(&self.data, &other.data)),
            (Plus, Minus) => BitAnd::bitand(self.clone(), other),
            (Minus, Plus) => BitAnd::bitand(other.clone(), self),
            (Minus, Minus) => {
                // forward to val-ref, choosing the larger to clone
                if self.len() >= other.len() {
                    BitAnd::bitand(self.clone(), other)
                } else {
                    BitAnd::bitand(other.clone(), self)
                }
            }
        }
    }
//@ end
}

impl BitOrSpecImpl<&BigInt> for &BigInt {
    open spec fn obeys_bitor_spec() -> bool { false }
    open spec fn bitor_req(self, rhs: &BigInt) -> bool { self.wfi() && rhs.wfi() }
    open spec fn bitor_spec(self, rhs: &BigInt) -> BigInt { arbitrary() }
}
impl BitOr<&BigInt> for &BigInt {
    type Output = BigInt;
//@ extract src/bigint/bits.rs :: impl BitOr<&BigInt> for &BigInt :: fn bitor rules=R0,R3do,R3co props=C07,C10 label=bigint_bitor_ref_ref
    fn bitor(self, other: &BigInt) -> /*+*/(r: /*-*/BigInt/*+*/)/*-*/
//+{
        ensures r.wfi(), bits_rel(1, r.iv(), self.iv(), other.iv())
//+}
    {
//+{
        proof {
            lemma_sgn_mul(self.sign, self.data.v()); lemma_sgn_mul(other.sign, other.data.v());
            lemma_with_zero(1, other.iv()); lemma_with_zero(1, self.iv());
            lemma_bits_rel_comm(1, self.iv(), other.iv());
            lemma_pp_all(1, self.data, other.data);
        }
//+}
        match (self.sign, other.sign) {
            (NoSign, _) => other.clone(),
            (_, NoSign) => self.clone(),
            (Plus, Plus) => BigInt::from(BitOr::bitor(&self.data, &other.data)),
            (Plus, Minus) => BitOr::bitor(other.clone(), self),
            (Minus, Plus) => BitOr::bitor(self.clone(), other),
            (Minus, Minus) => {
                // forward to val-ref, choosing the smaller to clone
                if self.len() <= other.len() {
                    BitOr::bitor(self.clone(), other)
                } else {
                    BitOr::bitor(other.clone(), self)
                }
            }
        }
    }
//@ end
}

impl NotSpecImpl for &BigInt {
    open spec fn obeys_not_spec() -> bool { false }
    open spec fn not_req(self) -> bool { self.wfi() }
    open spec fn not_spec(self) -> BigInt { arbitrary() }
}
impl Not for &BigInt {
    type Output = BigInt;
//@ extract src/bigint.rs :: impl Not for &BigInt :: fn not rules=R0,R3dp,R3dm,R3ng props=C07,C04 label=bigint_not_ref
    fn not(self) -> /*+*/(r: /*-*/BigInt/*+*/)/*-*/
//+{
        ensures r.wfi(), r.iv() == -self.iv() - 1, forall|k: nat| #[trigger] ibit(r.iv(), k) == !ibit(self.iv(), k)
//+}
    {
//+{
        proof {
            lemma_sgn_mul(self.sign, self.data.v());
            assert forall|k: nat| #[trigger] ibit(-self.iv() - 1, k) == !ibit(self.iv(), k) by { lemma_compl(self.iv(), k); }
        }
//+}
        match self.sign {
            NoSign => Neg::neg(BigInt::one()),
            Plus => Neg::neg(BigInt::from(Add::add(&self.data, 1u32))),
            Minus => BigInt::from(Sub::sub(&self.data, 1u32)),
        }
    }
//@ end
}

/// the operations are commutative
pub proof fn lemma_bits_rel_comm(op: int, x: int, y: int)
    ensures forall|r: int| bits_rel(op, r, x, y) == bits_rel(op, r, y, x)
{
    assert forall|r: int| bits_rel(op, r, x, y) == bits_rel(op, r, y, x) by {
        if bits_rel(op, r, x, y) { assert forall|k: nat| #[trigger] ibit(r, k) == bop(op, ibit(y, k), ibit(x, k)) by { } }
        if bits_rel(op, r, y, x) { assert forall|k: nat| #[trigger] ibit(r, k) == bop(op, ibit(x, k), ibit(y, k)) by { } }
    }
}

} // mod u
} // verus!
fn main() {}
