// BigInt core functions proved in unit i_core, as seen by other BigInt units (stubs generated from the proved signatures)
impl NegSpecImpl for Sign {
    open spec fn obeys_neg_spec() -> bool { false }
    open spec fn neg_req(self) -> bool { true }
    open spec fn neg_spec(self) -> Sign { arbitrary() }
}
impl NegSpecImpl for BigInt {
    open spec fn obeys_neg_spec() -> bool { false }
    open spec fn neg_req(self) -> bool { true }
    open spec fn neg_spec(self) -> BigInt { arbitrary() }
}
impl Neg for Sign {
    type Output = Sign;
//@ stub i_core/sign_neg
}
impl Neg for BigInt {
    type Output = BigInt;
//@ stub i_core/bigint_neg
}
impl BigInt {
//@ stub i_core/from_biguint
//@ stub i_core/clone
//@ stub i_core/is_zero
//@ stub i_core/is_negative
//@ stub i_core/is_positive
//@ extract src/bigint.rs :: impl BigInt :: const ZERO rules=R9,R13 label=BigInt_ZERO
    exec const ZERO: Self /*+*/ensures Self::ZERO.wfi(), Self::ZERO.iv() == 0 /*-*/{ BigInt {
        sign: NoSign,
        data: BigUint::ZERO,
    } }
//@ end
}
