//@ unit i_divops : BigInt / and % by reference, /=, %=, and the checked_* forms (src/bigint/division.rs, addition.rs, subtraction.rs, multiplication.rs, src/bigint.rs)
#![feature(allocator_api)]
use vstd::prelude::*;
use vstd::std_specs::iter::IteratorSpec;
use vstd::std_specs::ops::*;
use core::ops::{Add, Sub, Mul, Neg, Div, Rem, DivAssign, RemAssign};
verus! {
//@ include prelude/core.rs
//@ include prelude/std_specs.rs
//@ include prelude/panic.rs
//@ include prelude/val32.rs
//@ extract src/bigint.rs :: enum Sign attrs=1
#[derive(/*+*/Structural, /*-*/PartialEq, PartialOrd, Eq, Ord, Copy, Clone, Debug, Hash)]
pub enum Sign {
    Minus,
    NoSign,
    Plus,
}
//@ end
pub mod u {
use super::*;
use Sign::*;

//@ extract src/biguint.rs :: struct BigUint
pub struct BigUint {
    data: Vec<BigDigit>,
}
//@ end
//@ include prelude/biguint_view.rs
impl BigUint {
//@ extract src/biguint.rs :: impl BigUint :: const ZERO rules=R9,R13 label=BigUint_ZERO
    exec const ZERO: Self /*+*/ensures Self::ZERO.data@.len() == 0 /*-*/{ BigUint { data: Vec::new() } }
//@ end
//@ stub u_core/clone
//@ stub u_core/is_zero
}

//@ extract src/bigint.rs :: struct BigInt
pub struct BigInt {
    sign: Sign,
    data: BigUint,
}
//@ end
//@ include prelude/bigint_view.rs
//@ include prelude/bigint_core_stubs.rs
//@ include prelude/divspec.rs
impl BigInt {
//@ stub i_div/div_rem
}

// local model of num_traits::ToPrimitive::{to_u32, to_i32} for BigInt (default methods of the external trait, through to_u64 / to_i64)
pub trait NarrowPrim: Sized {
    spec fn as_int(&self) -> int;
    fn to_u32(&self) -> (r: Option<u32>)
        ensures r is Some <==> 0 <= self.as_int() <= 0xffff_ffff, r is Some ==> r.unwrap() as int == self.as_int();
    fn to_i32(&self) -> (r: Option<i32>)
        ensures r is Some <==> -0x8000_0000 <= self.as_int() <= 0x7fff_ffff, r is Some ==> r.unwrap() as int == self.as_int();
}
impl NarrowPrim for BigInt {
    open spec fn as_int(&self) -> int { self.iv() }
    //@ assume num_traits::<BigInt as ToPrimitive>::to_u32 : default method of the external trait (via to_u64); contract on the trait declaration above
    #[verifier::external_body]
    fn to_u32(&self) -> (r: Option<u32>) { unimplemented!() }
    //@ assume num_traits::<BigInt as ToPrimitive>::to_i32 : default method of the external trait (via to_i64); contract on the trait declaration above
    #[verifier::external_body]
    fn to_i32(&self) -> (r: Option<i32>) { unimplemented!() }
}

impl RemSpecImpl<u32> for &BigInt {
    open spec fn obeys_rem_spec() -> bool { false }
    open spec fn rem_req(self, rhs: u32) -> bool { self.wfi() && (!mp() ==> rhs != 0) }
    open spec fn rem_spec(self, rhs: u32) -> BigInt { arbitrary() }
}
impl Rem<u32> for &BigInt {
    type Output = BigInt;
    //@ assume BigInt:Rem<u32>for&BigInt : forward_all_scalar_binop_to_val_val! forwarder (engine F) to Rem<u32> for BigInt (proved in i_divscalar)
    #[verifier::external_body]
    fn rem(self, other: u32) -> (r: BigInt)
        ensures mp() ==> other != 0, r.wfi(), exists|q: int| is_trunc(self.iv(), other as int, q, r.iv())
    { unimplemented!() }
}
impl RemSpecImpl<i32> for &BigInt {
    open spec fn obeys_rem_spec() -> bool { false }
    open spec fn rem_req(self, rhs: i32) -> bool { self.wfi() && (!mp() ==> rhs != 0) }
    open spec fn rem_spec(self, rhs: i32) -> BigInt { arbitrary() }
}
impl Rem<i32> for &BigInt {
    type Output = BigInt;
    //@ assume BigInt:Rem<i32>for&BigInt : forward_all_scalar_binop_to_val_val! forwarder (engine F) to Rem<i32> for BigInt (proved in i_divscalar)
    #[verifier::external_body]
    fn rem(self, other: i32) -> (r: BigInt)
        ensures mp() ==> other != 0, r.wfi(), exists|q: int| is_trunc(self.iv(), other as int, q, r.iv())
    { unimplemented!() }
}

impl DivSpecImpl<&BigInt> for &BigInt {
    open spec fn obeys_div_spec() -> bool { false }
    open spec fn div_req(self, rhs: &BigInt) -> bool { self.wfi() && rhs.wfi() && (!mp() ==> rhs.iv() != 0) }
    open spec fn div_spec(self, rhs: &BigInt) -> BigInt { arbitrary() }
}
impl Div<&BigInt> for &BigInt {
    type Output = BigInt;
//@ extract src/bigint/division.rs :: impl Div<&BigInt> for &BigInt :: fn div props=C03,C10,C14 label=div_rr
    fn div(self, other: &BigInt) -> /*+*/(r: /*-*/BigInt/*+*/)/*-*/
//+{
        ensures mp() ==> other.iv() != 0, r.wfi(), exists|m: int| is_trunc(self.iv(), other.iv(), r.iv(), m)
//+}
    {
        let (q, _) = self.div_rem(other);
        q
    }
//@ end
}

impl RemSpecImpl<&BigInt> for &BigInt {
    open spec fn obeys_rem_spec() -> bool { false }
    open spec fn rem_req(self, rhs: &BigInt) -> bool { self.wfi() && rhs.wfi() && (!mp() ==> rhs.iv() != 0) }
    open spec fn rem_spec(self, rhs: &BigInt) -> BigInt { arbitrary() }
}
impl Rem<&BigInt> for &BigInt {
    type Output = BigInt;
//@ extract src/bigint/division.rs :: impl Rem<&BigInt> for &BigInt :: fn rem ufcs=self%other props=C03,C10,C14 label=rem_rr
    fn rem(self, other: &BigInt) -> /*+*/(r: /*-*/BigInt/*+*/)/*-*/
//+{
        ensures mp() ==> other.iv() != 0, r.wfi(), exists|q: int| is_trunc(self.iv(), other.iv(), q, r.iv())
//+}
    {
        if let Some(other) = other.to_u32() {
            Rem::rem(self, other)
        } else if let Some(other) = other.to_i32() {
            Rem::rem(self, other)
        } else {
            let (_, r) = self.div_rem(other);
            r
        }
    }
//@ end
}

impl DivAssignSpecImpl<&BigInt> for BigInt {
    open spec fn obeys_div_assign_spec() -> bool { false }
    open spec fn div_assign_req(&self, rhs: &BigInt) -> bool { self.wfi() && rhs.wfi() && (!mp() ==> rhs.iv() != 0) }
    open spec fn div_assign_spec(&self, rhs: &BigInt) -> &BigInt { arbitrary() }
}
impl DivAssign<&BigInt> for BigInt {
//@ extract src/bigint/division.rs :: impl DivAssign<&BigInt> for BigInt :: fn div_assign rules=R0,R3zd props=C03,C10,C14 label=div_assign_r
    fn div_assign(&mut self, other: &BigInt)
//+{
        ensures mp() ==> other.iv() != 0, final(self).wfi(), exists|m: int| is_trunc(old(self).iv(), other.iv(), final(self).iv(), m)
//+}
    {
        *self = Div::div(&*self, other);
    }
//@ end
}
impl RemAssignSpecImpl<&BigInt> for BigInt {
    open spec fn obeys_rem_assign_spec() -> bool { false }
    open spec fn rem_assign_req(&self, rhs: &BigInt) -> bool { self.wfi() && rhs.wfi() && (!mp() ==> rhs.iv() != 0) }
    open spec fn rem_assign_spec(&self, rhs: &BigInt) -> &BigInt { arbitrary() }
}
impl RemAssign<&BigInt> for BigInt {
//@ extract src/bigint/division.rs :: impl RemAssign<&BigInt> for BigInt :: fn rem_assign rules=R0,R3zr props=C03,C10,C14 label=rem_assign_r
    fn rem_assign(&mut self, other: &BigInt)
//+{
        ensures mp() ==> other.iv() != 0, final(self).wfi(), exists|q: int| is_trunc(old(self).iv(), other.iv(), q, final(self).iv())
//+}
    {
        *self = Rem::rem(&*self, other);
    }
//@ end
}

impl AddSpecImpl<&BigInt> for &BigInt {
    open spec fn obeys_add_spec() -> bool { false }
    open spec fn add_req(self, rhs: &BigInt) -> bool { self.wfi() && rhs.wfi() }
    open spec fn add_spec(self, rhs: &BigInt) -> BigInt { arbitrary() }
}
impl Add<&BigInt> for &BigInt {
    type Output = BigInt;
//@ stub i_addsub/add_rr
}
impl SubSpecImpl<&BigInt> for &BigInt {
    open spec fn obeys_sub_spec() -> bool { false }
    open spec fn sub_req(self, rhs: &BigInt) -> bool { self.wfi() && rhs.wfi() }
    open spec fn sub_spec(self, rhs: &BigInt) -> BigInt { arbitrary() }
}
impl Sub<&BigInt> for &BigInt {
    type Output = BigInt;
//@ stub i_addsub/sub_rr
}
impl MulSpecImpl<&BigInt> for &BigInt {
    open spec fn obeys_mul_spec() -> bool { false }
    open spec fn mul_req(self, rhs: &BigInt) -> bool { self.wfi() && rhs.wfi() }
    open spec fn mul_spec(self, rhs: &BigInt) -> BigInt { arbitrary() }
}
impl Mul<&BigInt> for &BigInt {
    type Output = BigInt;
//@ stub i_mul/mul_rr
}

impl BigInt {
    // contract-only re-homing of `impl CheckedAdd / CheckedSub / CheckedMul for BigInt` (external traits) and the inherent forms: never None
//@ extract src/bigint/addition.rs :: impl CheckedAdd for BigInt :: fn checked_add rename=checked_add_t props=C01,C14 label=checked_add_trait
    fn checked_add_t(&self, v: &BigInt) -> /*+*/(r: /*-*/Option<BigInt>/*+*/)/*-*/
//+{
        requires self.wfi(), v.wfi()
        ensures r is Some, r.unwrap().wfi(), r.unwrap().iv() == self.iv() + v.iv()
//+}
    {
        Some(self.add(v))
    }
//@ end

//@ extract src/bigint/subtraction.rs :: impl CheckedSub for BigInt :: fn checked_sub rename=checked_sub_t props=C01,C14 label=checked_sub_trait
    fn checked_sub_t(&self, v: &BigInt) -> /*+*/(r: /*-*/Option<BigInt>/*+*/)/*-*/
//+{
        requires self.wfi(), v.wfi()
        ensures r is Some, r.unwrap().wfi(), r.unwrap().iv() == self.iv() - v.iv()
//+}
    {
        Some(self.sub(v))
    }
//@ end

//@ extract src/bigint/multiplication.rs :: impl CheckedMul for BigInt :: fn checked_mul rename=checked_mul_t props=C02,C14 label=checked_mul_trait
    fn checked_mul_t(&self, v: &BigInt) -> /*+*/(r: /*-*/Option<BigInt>/*+*/)/*-*/
//+{
        requires self.wfi(), v.wfi()
        ensures r is Some, r.unwrap().wfi(), r.unwrap().iv() == self.iv() * v.iv()
//+}
    {
        Some(self.mul(v))
    }
//@ end

//@ extract src/bigint.rs :: impl BigInt :: fn checked_add ufcs=self+v props=C01,C14 label=checked_add_inherent
    pub fn checked_add(&self, v: &BigInt) -> /*+*/(r: /*-*/Option<BigInt>/*+*/)/*-*/
//+{
        requires self.wfi(), v.wfi()
        ensures r is Some, r.unwrap().wfi(), r.unwrap().iv() == self.iv() + v.iv()
//+}
    {
        Some(Add::add(self, v))
    }
//@ end

//@ extract src/bigint.rs :: impl BigInt :: fn checked_sub ufcs=self-v props=C01,C14 label=checked_sub_inherent
    pub fn checked_sub(&self, v: &BigInt) -> /*+*/(r: /*-*/Option<BigInt>/*+*/)/*-*/
//+{
        requires self.wfi(), v.wfi()
        ensures r is Some, r.unwrap().wfi(), r.unwrap().iv() == self.iv() - v.iv()
//+}
    {
        Some(Sub::sub(self, v))
    }
//@ end

//@ extract src/bigint.rs :: impl BigInt :: fn checked_mul ufcs=self*v props=C02,C14 label=checked_mul_inherent
    pub fn checked_mul(&self, v: &BigInt) -> /*+*/(r: /*-*/Option<BigInt>/*+*/)/*-*/
//+{
        requires self.wfi(), v.wfi()
        ensures r is Some, r.unwrap().wfi(), r.unwrap().iv() == self.iv() * v.iv()
//+}
    {
        Some(Mul::mul(self, v))
    }
//@ end
}

impl BigInt {
    // contract-only re-homing of `impl CheckedDiv for BigInt` (external trait) and the inherent checked_div
//@ extract src/bigint/division.rs :: impl CheckedDiv for BigInt :: fn checked_div rename=checked_div_t props=C03,C14 label=checked_div_trait
    fn checked_div_t(&self, v: &BigInt) -> /*+*/(r: /*-*/Option<BigInt>/*+*/)/*-*/
//+{
        requires self.wfi(), v.wfi()
        ensures r is None <==> v.iv() == 0, r is Some ==> r.unwrap().wfi() && exists|m: int| is_trunc(self.iv(), v.iv(), r.unwrap().iv(), m)
//+}
    {
        if v.is_zero() {
            return None;
        }
        Some(self.div(v))
    }
//@ end

//@ extract src/bigint.rs :: impl BigInt :: fn checked_div ufcs=self/v props=C03,C14 label=checked_div_inherent
    pub fn checked_div(&self, v: &BigInt) -> /*+*/(r: /*-*/Option<BigInt>/*+*/)/*-*/
//+{
        requires self.wfi(), v.wfi()
        ensures r is None <==> v.iv() == 0, r is Some ==> r.unwrap().wfi() && exists|m: int| is_trunc(self.iv(), v.iv(), r.unwrap().iv(), m)
//+}
    {
        if v.is_zero() {
            return None;
        }
        Some(Div::div(self, v))
    }
//@ end
}

} // mod u
} // verus!
fn main() {}
